#!/bin/bash
# manual probe build
set -e
export GOFLAGS=-mod=mod GOPROXY=off GOSUMDB=off GOTOOLCHAIN=local
GO=/root/go/pkg/mod/golang.org/toolchain@v0.0.1-go1.25.0.linux-amd64/bin/go
B=/verif/build
mkdir -p $B
cp /repo/go.mod $B/go.mod; cp /repo/go.sum $B/go.sum
python3 - <<'PY'
import json,glob,os
rep={}
for f in glob.glob('/verif/harness/pubsub/*.go'):
    rep['/repo/zz_verif_'+os.path.basename(f)]=f
json.dump({"Replace":rep},open('/verif/build/overlay.json','w'))
PY
cd /repo && $GO test -c -tags verif -overlay $B/overlay.json -modfile $B/go.mod -vet=off -o $B/pubsub.test . 
