//go:build verif

package timecache

// C02 monitor (b): the seen cache alone. Online monitor with an uncertainty
// band: an id must be present while now <= qualifying time + TTL, must be
// absent once now > qualifying time + TTL + sweep interval, and may go either
// way in between (the sweeper runs on its own ticker). Operation instants are
// kept off the tick grid and off expiry instants so that no verdict depends on
// goroutine order at a tie.

import (
	"fmt"
	"runtime"
	"strings"
	"sync"
	"sync/atomic"
	"testing"
	"testing/synctest"
	"time"
)

type c02Entry struct {
	present bool      // the model believes an entry exists (possibly expired-unswept)
	expiry  time.Time // qualifying time + TTL
	maybe   bool      // in the uncertain band we do not know whether the sweeper removed it
}

type c02Mon struct {
	c     *vCase
	strat Strategy
	ttl   time.Duration
	sweep time.Duration
	m     map[string]*c02Entry
	hist  []string
	zones map[string]int
}

func (mo *c02Mon) zone(id string, now time.Time) string {
	e := mo.m[id]
	if e == nil || !e.present {
		return "absent"
	}
	if !now.After(e.expiry) {
		return "present"
	}
	if now.After(e.expiry.Add(mo.sweep)) {
		return "absent"
	}
	return "either"
}

func (mo *c02Mon) fail(kind, format string, args ...any) {
	mo.c.Violatef(map[string]string{"kind": kind, "strategy": fmt.Sprint(mo.strat)}, "strategy=%d ttl=%v sweep=%v hist=%v: %s",
		mo.strat, mo.ttl, mo.sweep, mo.hist, fmt.Sprintf(format, args...))
}

func (mo *c02Mon) has(tc TimeCache, id string) {
	now := time.Now()
	z := mo.zone(id, now)
	got := tc.Has(id)
	mo.hist = append(mo.hist, fmt.Sprintf("has(%s)=%v@%v[%s]", id, got, now.Sub(c02Epoch), z))
	mo.zones["has/"+z]++
	switch z {
	case "present":
		if !got {
			mo.fail("forgotten_early", "Has(%s)=false although the id must still be remembered (expiry %v)", id, mo.m[id].expiry.Sub(c02Epoch))
		}
	case "absent":
		if got {
			mo.fail("remembered_too_long", "Has(%s)=true although it was never added / TTL+sweep have passed", id)
		}
		delete(mo.m, id)
	}
	if got {
		if mo.strat == Strategy_LastSeen {
			mo.m[id] = &c02Entry{present: true, expiry: now.Add(mo.ttl)}
		}
	} else {
		delete(mo.m, id)
	}
}

func (mo *c02Mon) add(tc TimeCache, id string) {
	now := time.Now()
	z := mo.zone(id, now)
	got := tc.Add(id)
	mo.hist = append(mo.hist, fmt.Sprintf("add(%s)=%v@%v[%s]", id, got, now.Sub(c02Epoch), z))
	mo.zones["add/"+z]++
	switch z {
	case "present":
		if got {
			mo.fail("forgotten_early", "Add(%s)=true (newly added) although the id must still be remembered", id)
		}
	case "absent":
		if !got {
			mo.fail("remembered_too_long", "Add(%s)=false although the id was never added / TTL+sweep have passed", id)
		}
	}
	if got {
		mo.m[id] = &c02Entry{present: true, expiry: now.Add(mo.ttl)}
	} else if mo.strat == Strategy_LastSeen {
		mo.m[id] = &c02Entry{present: true, expiry: now.Add(mo.ttl)}
	}
}

var c02Epoch time.Time

// op encoding: 0..3 = add a, add b, has a, has b; 4.. = advance by steps[op-4]
func c02RunSeq(c *vCase, strat Strategy, ttl, sweep time.Duration, pub bool, steps []time.Duration, seq []int, zones map[string]int) {
	c02Epoch = time.Now()
	var tc TimeCache
	if pub {
		tc = NewTimeCacheWithStrategy(strat, ttl)
	} else if strat == Strategy_FirstSeen {
		tc = newFirstSeenCacheWithSweepInterval(ttl, sweep)
	} else {
		tc = newLastSeenCacheWithSweepInterval(ttl, sweep)
	}
	mo := &c02Mon{c: c, strat: strat, ttl: ttl, sweep: sweep, m: map[string]*c02Entry{}, zones: zones}
	// start off the tick grid
	time.Sleep(7 * time.Millisecond)
	synctest.Wait()
	for _, op := range seq {
		switch {
		case op == 0:
			mo.add(tc, "a")
		case op == 1:
			mo.add(tc, "b")
		case op == 2:
			mo.has(tc, "a")
		case op == 3:
			mo.has(tc, "b")
		default:
			d := steps[op-4]
			mo.hist = append(mo.hist, fmt.Sprintf("+%v", d))
			time.Sleep(d)
			synctest.Wait()
		}
		if c.Violated() {
			break
		}
	}
	tc.Done()
	synctest.Wait()
}

func c02Steps(ttl, sweep time.Duration) []time.Duration {
	// all steps are odd multiples of 1ms offsets so instants never coincide with ticks or expiries
	return []time.Duration{3 * time.Millisecond, ttl/2 + 1*time.Millisecond, ttl - 11*time.Millisecond, ttl + 13*time.Millisecond, ttl + sweep + 17*time.Millisecond}
}

func TestVerifC02CacheSmall(t *testing.T) {
	// exhaustive: all sequences of length L over 9 ops, both strategies, 3 (ttl,sweep) settings;
	// one case = (strategy, setting, first two ops)
	type pre struct {
		strat Strategy
		cfg   int
		a, b  int
	}
	var pres []pre
	for s := 0; s < 2; s++ {
		for cfg := 0; cfg < 3; cfg++ {
			for a := 0; a < 9; a++ {
				for b := 0; b < 9; b++ {
					pres = append(pres, pre{Strategy(s), cfg, a, b})
				}
			}
		}
	}
	vRun(t, "C02.cache.small", func(string) int { return len(pres) }, func(c *vCase) {
		p := pres[c.Idx]
		rest := 3
		if c.Tier == "thorough" {
			rest = 4
		}
		var ttl, sweep time.Duration
		pub := false
		switch p.cfg {
		case 0:
			ttl, sweep, pub = 120*time.Second, time.Minute, true
		case 1:
			ttl, sweep = 2*time.Second, 5*time.Second
		case 2:
			ttl, sweep = 30*time.Second, 4*time.Second
		}
		steps := c02Steps(ttl, sweep)
		zones := map[string]int{}
		n := 0
		c.Bubble(func() {
			seq := make([]int, 2+rest)
			seq[0], seq[1] = p.a, p.b
			var rec func(i int)
			rec = func(i int) {
				if c.Violated() {
					return
				}
				if i == len(seq) {
					c02RunSeq(c, p.strat, ttl, sweep, pub, steps, seq, zones)
					n++
					return
				}
				for o := 0; o < 9; o++ {
					seq[i] = o
					rec(i + 1)
				}
			}
			rec(2)
		})
		c.Count("sequences", n)
		for k, v := range zones {
			c.Count("zone:"+k, v)
		}
		c.Sig(p)
		c.Nontrivial(zones["has/present"]+zones["add/present"] > 0 && zones["has/absent"]+zones["add/absent"] > 0)
		if c.Idx == 100 {
			c.Sample(map[string]any{"strategy": int(p.strat), "ttl": ttl.String(), "sweep": sweep.String(), "prefix_ops": []int{p.a, p.b}, "suffix_len": rest, "sequences": n, "zones": zones})
		}
	})
}

func TestVerifC02CacheRand(t *testing.T) {
	vRun(t, "C02.cache.rand", vCount(1500, 60000), func(c *vCase) {
		strat := Strategy(c.Intn(2))
		ttls := []time.Duration{2 * time.Second, 30 * time.Second, 120 * time.Second}
		ttl := ttls[c.Intn(3)]
		sweep := time.Minute
		pub := c.Chance(0.5)
		if !pub {
			sweep = time.Duration(c.Range(1, 90)) * time.Second
		}
		steps := c02Steps(ttl, sweep)
		// extra PRNG step lengths (odd milliseconds)
		for i := 0; i < 3; i++ {
			steps = append(steps, time.Duration(2*c.Range(0, int((ttl+sweep)/time.Millisecond))+1)*time.Millisecond/2*2+time.Millisecond)
		}
		n := c.Range(5, 40)
		seq := make([]int, n)
		for i := range seq {
			if c.Chance(0.45) {
				seq[i] = 4 + c.Intn(len(steps))
			} else {
				seq[i] = c.Intn(4)
			}
		}
		zones := map[string]int{}
		c.Bubble(func() { c02RunSeq(c, strat, ttl, sweep, pub, steps, seq, zones) })
		for k, v := range zones {
			c.Count("zone:"+k, v)
		}
		c.Count("ops", n)
		var zs []string
		for k := range zones {
			zs = append(zs, k)
		}
		c.Sig(int(strat), ttl, sweep, fmt.Sprint(seq))
		c.Nontrivial(len(zs) >= 3)
		if c.Idx < 2 {
			c.Sample(map[string]any{"strategy": int(strat), "ttl": ttl.String(), "sweep": sweep.String(), "ops": seq, "zones": zones})
		}
	})
}

// real-time stress under the race detector: many goroutines Add/Has the same
// ids; with a long TTL exactly one Add per id may report "newly added".
func TestVerifC02CacheStress(t *testing.T) {
	vRun(t, "C02.cache.stress", vCount(300, 6000), func(c *vCase) {
		strat := Strategy(c.Intn(2))
		tc := NewTimeCacheWithStrategy(strat, time.Hour)
		defer tc.Done()
		ids := c.Range(1, 6)
		g := c.Range(4, 16)
		reps := c.Range(1, 4)
		fresh := make([]atomic.Int32, ids)
		var hasBeforeAdd atomic.Int32
		var wg sync.WaitGroup
		start := make(chan struct{})
		for i := 0; i < g; i++ {
			wg.Add(1)
			go func(i int) {
				defer wg.Done()
				<-start
				for r := 0; r < reps; r++ {
					for k := 0; k < ids; k++ {
						id := fmt.Sprintf("id-%d", (k+i)%ids)
						if (i+r)%3 == 0 {
							tc.Has(id)
						}
						if tc.Add(id) {
							fresh[(k+i)%ids].Add(1)
						} else if !tc.Has(id) {
							hasBeforeAdd.Add(1)
						}
						runtime.Gosched()
					}
				}
			}(i)
		}
		close(start)
		wg.Wait()
		for k := range fresh {
			if n := fresh[k].Load(); n != 1 {
				c.Violatef(map[string]string{"kind": "add_not_exactly_once"}, "strategy=%d: id %d reported newly added %d times by %d goroutines", strat, k, n, g)
			}
		}
		if n := hasBeforeAdd.Load(); n > 0 {
			c.Violatef(map[string]string{"kind": "forgotten_early"}, "Has=false right after Add=false %d times", n)
		}
		c.Count("adds", g*reps*ids)
		c.Sig(int(strat), ids, g, reps)
		c.Nontrivial(g >= 4)
		if c.Idx < 1 {
			c.Sample(map[string]any{"strategy": int(strat), "ids": ids, "goroutines": g, "reps": reps})
		}
	})
}

var _ = strings.Join
