//go:build verif

package pubsub

// C16 — a blacklisted peer can neither inject messages nor receive traffic.
// The position of the blacklisting call is enumerated over the lifecycle of
// puppet X (banned); puppet Y forwards messages authored by X; puppet O
// observes what the node forwards.

import (
	"context"
	"fmt"
	"strings"
	"testing"
	"time"

	pb "github.com/libp2p/go-libp2p-pubsub/pb"
	"github.com/libp2p/go-libp2p/core/crypto"
	"github.com/libp2p/go-libp2p/core/peer"
	"github.com/libp2p/go-libp2p/core/protocol"
)

var c16Positions = []string{"before_connect", "stream_in_flight", "connected", "in_mesh", "in_fanout", "in_validation", "in_validation_queue", "disconnected"}

func TestVerifC16Blacklist(t *testing.T) {
	type combo struct {
		router, impl, route, pos string
	}
	var combos []combo
	for _, router := range []string{"gossipsub", "floodsub", "randomsub"} {
		for _, impl := range []string{"map", "timecached"} {
			for _, route := range []string{"BlacklistPeer", "Add"} {
				for _, pos := range c16Positions {
					if (pos == "in_mesh" || pos == "in_fanout") && router != "gossipsub" {
						continue
					}
					combos = append(combos, combo{router, impl, route, pos})
				}
			}
		}
	}
	vRun(t, "C16.blacklist", func(tier string) int {
		if tier == "thorough" {
			return len(combos) * 1000
		}
		return len(combos) * 16
	}, func(c *vCase) {
		co := combos[c.Idx%len(combos)]
		c.Bubble(func() {
			r := vNewRig(c)
			defer r.Close()
			var bl Blacklist
			if co.impl == "map" {
				bl = NewMapBlacklist()
			} else {
				b, _ := NewTimeCachedBlacklist(time.Hour)
				bl = b
				defer b.(*TimeCachedBlacklist).tc.Done() // user-owned: the library never stops it
			}
			var proto protocol.ID
			switch co.router {
			case "gossipsub":
				proto = vAllGossipProtos[c.Intn(4)]
			case "floodsub":
				proto = FloodSubID
			default:
				proto = []protocol.ID{RandomSubID, FloodSubID}[c.Intn(2)]
			}
			X := r.NewPuppet("X", proto, "")
			Y := r.NewPuppet("Y", proto, "")
			O := r.NewPuppet("O", proto, "")
			slowGate := make(chan struct{})
			released := false
			release := func() {
				if !released {
					released = true
					close(slowGate)
				}
			}
			defer release()
			val := func(ctx context.Context, p peer.ID, m *Message) ValidationResult {
				if strings.HasPrefix(string(m.Data), "slow") {
					select {
					case <-slowGate:
					case <-ctx.Done():
					}
				}
				return ValidationAccept
			}
			opts := []Option{WithBlacklist(bl), WithMessageIdFn(func(m *pb.Message) string { return string(m.Data) })}
			// 30 % of the positions that need no validator run without signatures and without validators: such messages
			// never enter the validation pipeline, the checks at the door are all there is
			bare := c.Chance(0.3) && co.pos != "in_validation" && co.pos != "in_validation_queue"
			if bare {
				opts = append(opts, WithMessageSignaturePolicy(StrictNoSign))
			} else if co.pos == "in_validation_queue" {
				opts = append(opts, WithValidateWorkers(1), WithDefaultValidator(val, WithValidatorInline(true)))
			} else {
				opts = append(opts, WithDefaultValidator(val))
			}
			if co.router == "gossipsub" {
				p := vFastParams()
				opts = append(opts, WithGossipSubParams(p))
			}
			if err := r.Start(co.router, opts...); err != nil {
				c.Inconclusive("node: %v", err)
				return
			}
			nd, me := r.nd, r.nd.ID()
			sub, err := nd.ps.Subscribe("t")
			if err != nil {
				panic(err)
			}
			type got struct {
				T    time.Time
				Data string
				From peer.ID
				Recv peer.ID
			}
			var local []got
			go func() {
				for {
					m, err := sub.Next(nd.ctx)
					if err != nil {
						return
					}
					c.mu.Lock()
					local = append(local, got{time.Now(), string(m.Data), m.GetFrom(), m.ReceivedFrom})
					c.mu.Unlock()
				}
			}()
			for _, p := range []*vPuppet{Y, O} {
				if err := r.Attach(p, c.Chance(0.5)); err != nil {
					c.Inconclusive("attach: %v", err)
					return
				}
				p.Send(me, vSubRPC(true, "t"))
			}
			seq := uint64(10)
			mkmsg := func(k crypto.PrivKey, data string) *pb.Message {
				seq++
				m := vSignedMsg(k, "t", vSeqno(seq), []byte(data))
				if bare {
					m.Signature, m.Key = nil, nil
				}
				return m
			}
			xmsg := func(data string) *pb.Message { return mkmsg(X.key, data) }
			ymsg := func(data string) *pb.Message { return mkmsg(Y.key, data) }
			connectX := func() bool {
				if err := r.Attach(X, c.Chance(0.5)); err != nil {
					return false
				}
				X.Send(me, vSubRPC(true, "t"))
				vSettle(20 * time.Millisecond)
				return true
			}
			// BlacklistPeer on a peer that was already put on the list directly must still do all of its clean-up
			preListed := co.route == "BlacklistPeer" && c.Chance(0.3)
			// a slow wire: several RPCs for X are still queued when the ban comes
			backlog := (co.pos == "connected" || co.pos == "in_mesh") && co.route == "BlacklistPeer" && c.Chance(0.35)
			ban := func() time.Time {
				if co.route == "BlacklistPeer" {
					if preListed {
						nd.Eval(func() { bl.Add(X.ID()) })
						vSettle(time.Duration(c.Range(0, 20)) * time.Millisecond)
					}
					nd.ps.BlacklistPeer(X.ID())
				} else {
					nd.Eval(func() { bl.Add(X.ID()) })
				}
				vSettle(0)
				t := time.Now()
				// one virtual millisecond separates "at the ban" from "after the ban"
				vSettle(time.Millisecond)
				return t
			}
			var hist []string
			note := func(f string, a ...any) { hist = append(hist, fmt.Sprintf(f, a...)) }
			inValidation := 0
			// ---- bring X to the chosen position
			switch co.pos {
			case "before_connect":
			case "stream_in_flight":
				r.nd.h.inj.add(&vRule{op: vOpNewStream, peer: X.ID(), delay: 500 * time.Millisecond})
				if c.Chance(0.5) {
					r.n.Connect(me, X.ID())
				} else {
					r.n.Connect(X.ID(), me)
				}
				vSettle(100 * time.Millisecond) // identify done, queue created, NewStream sleeping
				if c.Chance(0.6) {
					// X does not wait for the node's stream: it announces and GRAFTs on its own (the router admits a peer it has
					// no outbound stream to yet)
					if _, err := X.Open(me); err == nil {
						X.Send(me, vSubRPC(true, "t"))
						X.Send(me, vGraftRPC("t"))
						vSettle(20 * time.Millisecond)
						note("X subscribed and grafted on its own stream while the node's stream is being opened")
					}
				}
			case "connected", "in_mesh", "in_fanout", "in_validation", "in_validation_queue", "disconnected":
				if !connectX() {
					c.Inconclusive("attach X")
					return
				}
				if co.pos == "in_mesh" {
					X.Send(me, vGraftRPC("t"))
					r.ToNextGap(50 * time.Millisecond)
					if _, in := nd.Snap().Mesh["t"][X.ID()]; !in {
						c.Inconclusive("X not in mesh")
						return
					}
				}
				if co.pos == "in_fanout" {
					// the node publishes to a topic it has not joined and X, a subscriber of it, becomes a fanout target
					X.Send(me, vSubRPC(true, "f"))
					vSettle(10 * time.Millisecond)
					nd.ps.Publish("f", []byte("to-the-fanout"))
					vSettle(10 * time.Millisecond)
					if _, in := nd.Snap().Fanout["f"][X.ID()]; !in {
						c.Inconclusive("X not in the fanout set")
						return
					}
				}
				// some honest traffic first
				X.Send(me, vMsgRPC(xmsg("pre-x")))
				Y.Send(me, vMsgRPC(xmsg("pre-y-authored-by-x")))
				vSettle(30 * time.Millisecond)
				if co.pos == "in_validation" || co.pos == "in_validation_queue" {
					inValidation = c.Range(1, 3)
					for i := 0; i < inValidation; i++ {
						if c.Chance(0.5) {
							X.Send(me, vMsgRPC(xmsg(fmt.Sprintf("slow-from-x-%d", i))))
						} else {
							Y.Send(me, vMsgRPC(xmsg(fmt.Sprintf("slow-authored-by-x-%d", i))))
						}
					}
					vSettle(20 * time.Millisecond)
				}
				if co.pos == "disconnected" {
					r.n.Disconnect(me, X.ID())
					X.ForgetStreams()
					vSettle(50 * time.Millisecond)
				}
			}
			note("position=%s", co.pos)
			if backlog {
				r.nd.h.inj.add(&vRule{op: vOpWrite, peer: X.ID(), delay: 400 * time.Millisecond})
				for k, K := 0, c.Range(3, 6); k < K; k++ {
					nd.ps.Publish("t", []byte(fmt.Sprintf("backlog-%d", k)))
				}
				vSettle(20 * time.Millisecond)
				note("backlog: writes to X take 400 ms, several publications queued")
			}
			// ---- the ban
			xWireAtBan := X.WireLen()
			snapBefore := nd.Snap()
			tau := ban()
			note("ban via %s at +%v", co.route, tau.Sub(r.born))
			snapAt := nd.Snap()
			// right after BlacklistPeer returned, before X does anything that could make the node close its stream
			listedAtBan := ""
			if co.route == "BlacklistPeer" {
				for _, tn := range []string{"t", ""} {
					for _, p := range nd.ps.ListPeers(tn) {
						if p == X.ID() {
							listedAtBan = fmt.Sprintf("X appears in ListPeers(%q) right after BlacklistPeer returned", tn)
						}
					}
				}
			}
			// ---- after the ban: release validation, X keeps trying, Y forwards X's messages, node publishes
			release()
			vSettle(50 * time.Millisecond)
			queuedWhileBanned := ""
			if co.pos == "before_connect" || co.pos == "disconnected" {
				slowOpen := c.Chance(0.5)
				if slowOpen {
					// a stream the node might open to X now would take half a second to come up: whatever the node sets up
					// for X in the meantime (a queue, a place in the peer list) is there long enough to be seen
					r.nd.h.inj.add(&vRule{op: vOpNewStream, peer: X.ID(), delay: 500 * time.Millisecond})
				}
				r.n.Connect(X.ID(), me)
				vSettle(50 * time.Millisecond)
				if slowOpen && co.route == "BlacklistPeer" {
					if _, ok := nd.Snap().QPeers[X.ID()]; ok {
						queuedWhileBanned = "the node created an outbound queue for X, which connected after BlacklistPeer had returned"
					}
					for _, p := range nd.ps.ListPeers("") {
						if p == X.ID() {
							queuedWhileBanned = "X, which connected after BlacklistPeer had returned, appears in ListPeers(\"\")"
						}
					}
				}
				if _, err := X.Open(me); err == nil {
					X.Send(me, vSubRPC(true, "t"))
				}
				if slowOpen {
					vSettle(600 * time.Millisecond)
				}
			}
			if co.pos == "stream_in_flight" {
				vSettle(600 * time.Millisecond) // the delayed NewStream completes now
				X.Open(me)
			}
			X.Send(me, vMsgRPC(xmsg("post-from-x")))
			X.Send(me, vMsgRPC(ymsg("post-from-x-authored-by-y")))
			Y.Send(me, vMsgRPC(xmsg("post-authored-by-x")))
			Y.Send(me, vMsgRPC(ymsg("honest-y")))
			vSettle(50 * time.Millisecond)
			nd.ps.Publish("t", []byte("node-publish"))
			if co.router == "gossipsub" {
				r.ToNextGap(50 * time.Millisecond)
				nd.ps.Publish("t", []byte("node-publish-2"))
			}
			vSettle(100 * time.Millisecond)
			// ---- oracle
			fail := func(cause map[string]string, format string, args ...any) {
				cause["route"] = co.route
				cause["position"] = co.pos
				var life []string
				for _, e := range nd.tr.Events() {
					if (e.Kind == "newout" || e.Kind == "closedout") && e.Peer == X.ID() {
						life = append(life, fmt.Sprintf("%s@+%v", e.Kind, e.T.Sub(r.born)))
					}
				}
				c.Violatef(cause, "router=%s blacklist=%s route=%s position=%s: %s\n history=%v\n X outbound-stream lifecycle at the node: %v", co.router, co.impl, co.route, co.pos, fmt.Sprintf(format, args...), hist, life)
			}
			tainted := func(data string, from, recv peer.ID) bool {
				return from == X.ID() || recv == X.ID() || strings.Contains(data, "from-x") || strings.Contains(data, "by-x")
			}
			c.mu.Lock()
			loc := append([]got(nil), local...)
			c.mu.Unlock()
			honest := false
			for _, g := range loc {
				c.Logf("local +%v %q from=%s recv=%s", g.T.Sub(tau), g.Data, r.Name(g.From), r.Name(g.Recv))
				if g.Data == "honest-y" {
					honest = true
				}
				if g.T.After(tau) && tainted(g.Data, g.From, g.Recv) {
					fail(map[string]string{"kind": "delivered_after_ban", "msg": strings.Split(g.Data, "-")[0]}, "message %q (author %s, forwarder %s) delivered to the subscriber %v after the ban", g.Data, r.Name(g.From), r.Name(g.Recv), g.T.Sub(tau))
				}
			}
			if !honest {
				fail(map[string]string{"kind": "honest_traffic_lost"}, "the honest peer's message was not delivered after the ban")
			}
			for _, p := range []*vPuppet{O, Y} {
				for _, wr := range p.Wire() {
					for _, m := range wr.RPC.Publish {
						if wr.T.After(tau) && tainted(string(m.Data), peer.ID(m.From), "") {
							fail(map[string]string{"kind": "forwarded_after_ban", "msg": strings.Split(string(m.Data), "-")[0]}, "message %q authored/forwarded by X reached %s %v after the ban", m.Data, p.name, wr.T.Sub(tau))
						}
					}
				}
			}
			for _, e := range nd.tr.Events() {
				if e.Kind == "reject" && e.T.After(tau) && tainted(e.ID, "", e.From) {
					if e.Reason != RejectBlacklstedPeer && e.Reason != RejectBlacklistedSource {
						fail(map[string]string{"kind": "reject_reason"}, "message %q rejected after the ban with reason %q", e.ID, e.Reason)
					}
				}
			}
			if co.pos == "stream_in_flight" || co.pos == "before_connect" || co.pos == "disconnected" {
				// an outbound stream to X completing after the ban must be refused: nothing may arrive on it
				for _, wr := range X.WireSince(xWireAtBan) {
					if wr.Opened.After(tau) {
						fail(map[string]string{"kind": "stream_not_refused"}, "X received an RPC on a stream that completed after the ban: %v", wr.RPC)
						break
					}
				}
			}
			if co.route == "BlacklistPeer" {
				// (with a backlog, the one write that was already under way when the ban came cannot be recalled)
				allowed := 0
				if backlog {
					allowed = 1
				}
				if n := len(X.WireSince(xWireAtBan)); n > allowed {
					fail(map[string]string{"kind": "traffic_to_banned_peer", "backlog": fmt.Sprint(backlog)}, "X received %d RPCs after BlacklistPeer returned (backlog=%v)", n, backlog)
				}
				if _, ok := snapAt.QPeers[X.ID()]; ok {
					fail(map[string]string{"kind": "queue_not_closed"}, "X still has an outbound queue after BlacklistPeer")
				}
				if listedAtBan != "" {
					fail(map[string]string{"kind": "listed_after_ban", "when": "at_once"}, "%s", listedAtBan)
				}
				if queuedWhileBanned != "" {
					fail(map[string]string{"kind": "set_up_after_ban"}, "%s", queuedWhileBanned)
				}
				for _, tn := range []string{"t", ""} {
					for _, p := range nd.ps.ListPeers(tn) {
						if p == X.ID() {
							fail(map[string]string{"kind": "listed_after_ban"}, "X appears in ListPeers(%q) after BlacklistPeer", tn)
						}
					}
				}
				for tn, m := range snapAt.Mesh {
					if _, in := m[X.ID()]; in {
						fail(map[string]string{"kind": "in_mesh_after_ban"}, "X is in mesh[%s] after BlacklistPeer", tn)
					}
				}
				for tn, m := range snapAt.Fanout {
					if _, in := m[X.ID()]; in {
						fail(map[string]string{"kind": "in_fanout_after_ban"}, "X is in fanout[%s] after BlacklistPeer", tn)
					}
				}
			}
			_ = snapBefore
			c.Count("positions:"+co.pos, 1)
			c.Count("messages_in_validation_at_ban", inValidation)
			c.Sig(co, string(proto), inValidation, bare, preListed, backlog)
			c.Nontrivial(true)
			c.Order(co.pos, co.route, inValidation)
			if c.Idx < 3 {
				c.Sample(map[string]any{"router": co.router, "blacklist": co.impl, "route": co.route, "position": co.pos, "in_validation": inValidation, "history": hist})
			}
		})
	})
}
