//go:build verif

package pubsub

// C17 monitor (b): the message cache alone against a sliding-window reference.
// A message is retrievable iff some Put of its id happened fewer than `history`
// shifts ago, and advertised iff some Put happened fewer than `gossip` shifts
// ago; per-peer transmission counts grow by one per GetForPeer while the
// message is retrievable.

import (
	"fmt"
	"sort"
	"strings"
	"testing"

	pb "github.com/libp2p/go-libp2p-pubsub/pb"
	"github.com/libp2p/go-libp2p/core/peer"
)

type c17Ref struct {
	gossip, history int
	shifts          int
	puts            map[string][]int // id -> shift index of every put
	topic           map[string]string
	order           []string // put order (id per put) with shift index
	orderAt         []int
	tx              map[string]map[peer.ID]int
	txEpoch         map[string]int // last put epoch at which the tx counters are valid
}

func (r *c17Ref) age(id string) (int, bool) {
	best := -1
	for _, s := range r.puts[id] {
		if a := r.shifts - s; best < 0 || a < best {
			best = a
		}
	}
	return best, best >= 0
}

func (r *c17Ref) dup(id string) bool {
	// more than one put of this id is still inside the history window
	n := 0
	for _, s := range r.puts[id] {
		if r.shifts-s < r.history {
			n++
		}
	}
	return n > 1
}

func c17Msg(id, topic string) *Message {
	return &Message{Message: &pb.Message{From: []byte(id), Topic: &topic}}
}

const (
	c17Put1 = iota
	c17Put2
	c17Get1
	c17Get2
	c17Peer1
	c17Peer2
	c17Gossip
	c17Shift
	c17NOps
)

var c17OpNames = []string{"put(m1,t1)", "put(m2,t2)", "get(m1)", "get(m2)", "getForPeer(m1,p1)", "getForPeer(m1,p2)", "gossipIDs(t1)", "shift"}

func c17Run(c *vCase, gossip, history int, seq []int, ids []string, topics []string, classes map[string]int) {
	mc := NewMessageCache(gossip, history)
	mc.SetMsgIdFn(func(m *Message) string { return string(m.GetFrom()) })
	ref := &c17Ref{gossip: gossip, history: history, puts: map[string][]int{}, topic: map[string]string{}, tx: map[string]map[peer.ID]int{}}
	var hist []string
	everDup := false
	fail := func(kind string, format string, args ...any) {
		cause := map[string]string{"kind": kind, "dup_put": fmt.Sprint(everDup)}
		c.Violatef(cause, "gossip=%d history=%d ops=%v: %s", gossip, history, hist, fmt.Sprintf(format, args...))
	}
	put := func(id, topic string) {
		mc.Put(c17Msg(id, topic))
		ref.puts[id] = append(ref.puts[id], ref.shifts)
		ref.topic[id] = topic
		ref.order = append(ref.order, id)
		ref.orderAt = append(ref.orderAt, ref.shifts)
		if ref.dup(id) {
			everDup = true
		}
	}
	get := func(id string) {
		_, ok := mc.Get(id)
		a, put := ref.age(id)
		want := put && a < history
		if ok != want {
			if want {
				fail("evicted_early", "Get(%s)=false, last put %d shifts ago (< history)", id, a)
			} else {
				fail("retained_too_long", "Get(%s)=true, last put %d shifts ago (put=%v)", id, a, put)
			}
		}
		classes[fmt.Sprintf("get/%v", want)]++
	}
	getForPeer := func(id string, p peer.ID) {
		m, n, ok := mc.GetForPeer(id, p)
		a, put := ref.age(id)
		want := put && a < history
		if ok != want {
			if want {
				fail("evicted_early", "GetForPeer(%s)=false, last put %d shifts ago", id, a)
			} else {
				fail("retained_too_long", "GetForPeer(%s)=true, last put %d shifts ago", id, a)
			}
			return
		}
		if !ok {
			return
		}
		if string(m.GetFrom()) != id {
			fail("wrong_message", "GetForPeer(%s) returned message %s", id, m.GetFrom())
		}
		if ref.tx[id] == nil {
			ref.tx[id] = map[peer.ID]int{}
		}
		ref.tx[id][p]++
		if n != ref.tx[id][p] {
			fail("tx_count", "GetForPeer(%s,%s) count=%d, reference %d", id, p, n, ref.tx[id][p])
			ref.tx[id][p] = n
		}
		classes["getForPeer/served"]++
	}
	gossipIDs := func(topic string) {
		got := append([]string(nil), mc.GetGossipIDs(topic)...)
		var want []string
		for i, id := range ref.order {
			if ref.topic[id] == topic && ref.shifts-ref.orderAt[i] < gossip {
				want = append(want, id)
			}
		}
		sort.Strings(got)
		sort.Strings(want)
		if strings.Join(got, ",") != strings.Join(want, ",") {
			// a duplicate put of an id whose older entry expired may have dropped the message
			fail("gossip_window", "GetGossipIDs(%s)=%v, reference %v", topic, got, want)
		}
		for _, id := range got {
			if _, ok := mc.Get(id); !ok {
				fail("advertised_unretrievable", "id %s is advertised but not retrievable", id)
			}
		}
		classes[fmt.Sprintf("gossip/%d", len(want))]++
	}
	for _, op := range seq {
		hist = append(hist, c17OpNames[op])
		switch op {
		case c17Put1:
			put(ids[0], topics[0])
		case c17Put2:
			put(ids[1], topics[1])
		case c17Get1:
			get(ids[0])
		case c17Get2:
			get(ids[1])
		case c17Peer1:
			getForPeer(ids[0], "p1")
		case c17Peer2:
			getForPeer(ids[0], "p2")
		case c17Gossip:
			gossipIDs(topics[0])
		case c17Shift:
			mc.Shift()
			ref.shifts++
			// transmission counters die with the message
			for id := range ref.tx {
				if a, ok := ref.age(id); !ok || a >= history {
					delete(ref.tx, id)
				}
			}
		}
		if c.Violated() {
			return
		}
	}
}

func TestVerifC17CacheSmall(t *testing.T) {
	type pre struct{ g, h, a, b int }
	var pres []pre
	for h := 1; h <= 4; h++ {
		for g := 0; g <= h; g++ {
			for a := 0; a < c17NOps; a++ {
				for b := 0; b < c17NOps; b++ {
					pres = append(pres, pre{g, h, a, b})
				}
			}
		}
	}
	vRun(t, "C17.cache.small", func(string) int { return len(pres) }, func(c *vCase) {
		p := pres[c.Idx]
		rest := 3
		if c.Tier == "thorough" {
			rest = 5
		}
		seq := make([]int, 2+rest)
		seq[0], seq[1] = p.a, p.b
		classes := map[string]int{}
		n := 0
		same := c.Idx%2 == 0 // both messages in the same topic or not
		topics := []string{"t1", "t2"}
		if same {
			topics[1] = "t1"
		}
		var rec func(i int)
		rec = func(i int) {
			if c.Violated() {
				return
			}
			if i == len(seq) {
				c17Run(c, p.g, p.h, seq, []string{"m1", "m2"}, topics, classes)
				n++
				return
			}
			for o := 0; o < c17NOps; o++ {
				seq[i] = o
				rec(i + 1)
			}
		}
		rec(2)
		c.Count("sequences", n)
		for k, v := range classes {
			c.Count("class:"+k, v)
		}
		c.Sig(p, same)
		c.Nontrivial(classes["get/true"] > 0 && classes["get/false"] > 0)
		if c.Idx == 77 {
			c.Sample(map[string]any{"gossip": p.g, "history": p.h, "prefix": []string{c17OpNames[p.a], c17OpNames[p.b]}, "suffix_len": rest, "sequences": n})
		}
	})
}

func TestVerifC17CacheRand(t *testing.T) {
	vRun(t, "C17.cache.rand", vCount(2000, 100000), func(c *vCase) {
		h := c.Range(1, 6)
		g := c.Range(0, h)
		n := c.Range(5, 60)
		seq := make([]int, n)
		for i := range seq {
			seq[i] = c.Intn(c17NOps)
			if c.Chance(0.2) {
				seq[i] = c17Shift
			}
		}
		classes := map[string]int{}
		c17Run(c, g, h, seq, []string{"m1", "m2"}, []string{"t1", []string{"t1", "t2"}[c.Intn(2)]}, classes)
		c.Count("ops", n)
		c.Sig(g, h, fmt.Sprint(seq))
		c.Nontrivial(classes["get/true"] > 0 && classes["getForPeer/served"] > 0)
		if c.Idx < 2 {
			c.Sample(map[string]any{"gossip": g, "history": h, "ops": seq})
		}
	})
}
