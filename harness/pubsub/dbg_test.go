//go:build verif

package pubsub

import (
	"os"
	"runtime"
)

func vDumpAll(path string) {
	buf := make([]byte, 8<<20)
	n := runtime.Stack(buf, true)
	os.WriteFile(path, buf[:n], 0o644)
}
