//go:build verif

package pubsub

// C12 — no input from remote peers can crash the node or stall its event
// loop. A node per router with everything switched on; hostile puppets send
// raw byte streams and structurally valid RPCs with adversarial field values.
// Every input is logged before it is sent (a panic ends the child process and
// is attributed to it by the runner); after every input a liveness probe and
// an honest peer's delivery check run.

import (
	"context"
	"encoding/binary"
	"fmt"
	"os"
	"regexp"
	"runtime"
	"strings"
	"sync"
	"sync/atomic"
	"testing"
	"testing/synctest"
	"time"

	"github.com/libp2p/go-libp2p-pubsub/partialmessages"
	pb "github.com/libp2p/go-libp2p-pubsub/pb"
	"github.com/libp2p/go-libp2p/core/peer"
	"github.com/libp2p/go-libp2p/core/protocol"
)

type c12PeerState struct{ n int }

func c12Str(c *vCase) string {
	switch c.Intn(8) {
	case 0:
		return ""
	case 1:
		return strings.Repeat("T", 64<<10)
	case 2:
		return "t"
	case 3:
		return string([]byte{0xff, 0xfe, 0x00, 0x80})
	case 4:
		return "unknown-topic"
	default:
		return []string{"t", "u", "t", "f"}[c.Intn(4)]
	}
}

func c12ID(c *vCase) string {
	switch c.Intn(6) {
	case 0:
		return ""
	case 1:
		return strings.Repeat("i", 64<<10)
	case 2:
		return string(c11Bytes(c, c.Range(1, 40)))
	default:
		return fmt.Sprintf("id-%d", c.Intn(50))
	}
}

func c12IDs(c *vCase) []string {
	n := []int{0, 1, 3, 5000}[c.Intn(4)]
	if n == 5000 && c.Chance(0.7) {
		n = 20
	}
	out := make([]string, n)
	for i := range out {
		if n > 100 {
			out[i] = fmt.Sprintf("bulk-%d", i)
		} else {
			out[i] = c12ID(c)
		}
	}
	return out
}

func c12PeerInfo(c *vCase, n *vNet) *pb.PeerInfo {
	switch c.Intn(6) {
	case 0:
		return &pb.PeerInfo{}
	case 1:
		return &pb.PeerInfo{PeerID: c11Bytes(c, c.Range(0, 50)), SignedPeerRecord: c11Bytes(c, c.Range(0, 300))}
	case 2:
		id, _, rec := c09Record(c, n)
		return &pb.PeerInfo{PeerID: []byte(id), SignedPeerRecord: rec}
	case 3:
		id, _, rec := c09Record(c, n)
		return &pb.PeerInfo{PeerID: []byte(id), SignedPeerRecord: rec[:len(rec)/2]}
	case 4:
		_, _, rec := c09Record(c, n)
		return &pb.PeerInfo{PeerID: nil, SignedPeerRecord: rec}
	default:
		id, _, _ := c09Record(c, n)
		return &pb.PeerInfo{PeerID: []byte(id), SignedPeerRecord: c11Bytes(c, 100<<10)}
	}
}

// c12RPC draws a structurally valid RPC with edge values.
func c12RPC(c *vCase, n *vNet, p *vPuppet, self peer.ID, seq *uint64) (*pb.RPC, string) {
	r := &pb.RPC{}
	var kinds []string
	add := func(k string) { kinds = append(kinds, k) }
	for i, k := 0, c.Range(1, 3); i < k; i++ {
		switch c.Intn(12) {
		case 0: // subscriptions
			for j, m := 0, []int{1, 3, 200}[c.Intn(3)]; j < m; j++ {
				s := &pb.RPC_SubOpts{}
				if c.Chance(0.9) {
					t := c12Str(c)
					if m > 10 {
						t = fmt.Sprintf("bulk-topic-%d", j)
					}
					s.Topicid = &t
				}
				if c.Chance(0.9) {
					b := c.Chance(0.7)
					s.Subscribe = &b
				}
				if c.Chance(0.3) {
					b := c.Chance(0.5)
					s.RequestsPartial = &b
				}
				if c.Chance(0.3) {
					b := c.Chance(0.5)
					s.SupportsSendingPartial = &b
				}
				r.Subscriptions = append(r.Subscriptions, s)
			}
			add("subs")
		case 1, 2: // published messages, validly signed by the puppet's own key so they reach the validators
			*seq++
			l := []int{8, 8, 8, 0, 1, 2, 3, 4, 5, 6, 7, 9, 16}[c.Intn(13)]
			sb := make([]byte, 8)
			binary.BigEndian.PutUint64(sb, *seq)
			switch {
			case l < 8:
				sb = sb[8-l:]
			case l > 8:
				sb = append(make([]byte, l-8), sb...)
			}
			if l == 0 {
				sb = nil
			}
			m := vSignedMsg(p.key, "t", sb, []byte(c12ID(c)))
			switch c.Intn(10) {
			case 0:
				m.From = nil
			case 1:
				m.From = c11Bytes(c, c.Range(1, 60))
			case 2:
				m.From = []byte(self)
			case 3:
				m.Topic = nil
				vSign(p.key, m)
			case 4:
				t := c12Str(c)
				m.Topic = &t
				vSign(p.key, m)
			case 5:
				m.Key = c11Bytes(c, c.Range(0, 80))
			case 6:
				m.Signature = c11Bytes(c, c.Range(0, 80))
			}
			r.Publish = append(r.Publish, m)
			add(fmt.Sprintf("msg(seqlen=%d)", l))
		case 3:
			ctl := c12Ctl(r)
			for j, m := 0, c.Range(1, 3); j < m; j++ {
				h := &pb.ControlIHave{MessageIDs: c12IDs(c)}
				if c.Chance(0.9) {
					t := c12Str(c)
					h.TopicID = &t
				}
				ctl.Ihave = append(ctl.Ihave, h)
			}
			add("ihave")
		case 4:
			ctl := c12Ctl(r)
			ctl.Iwant = append(ctl.Iwant, &pb.ControlIWant{MessageIDs: c12IDs(c)})
			add("iwant")
		case 5:
			ctl := c12Ctl(r)
			for j, m := 0, c.Range(1, 3); j < m; j++ {
				g := &pb.ControlGraft{}
				if c.Chance(0.9) {
					t := c12Str(c)
					g.TopicID = &t
				}
				ctl.Graft = append(ctl.Graft, g)
			}
			add("graft")
		case 6:
			ctl := c12Ctl(r)
			pr := &pb.ControlPrune{}
			if c.Chance(0.9) {
				t := c12Str(c)
				pr.TopicID = &t
			}
			if c.Chance(0.7) {
				b := []uint64{0, 1, 1 << 31, 1 << 62, ^uint64(0), 9223372036, 9223372037}[c.Intn(7)]
				pr.Backoff = &b
			}
			for j, m := 0, []int{0, 1, 3, 40}[c.Intn(4)]; j < m; j++ {
				pr.Peers = append(pr.Peers, c12PeerInfo(c, n))
			}
			ctl.Prune = append(ctl.Prune, pr)
			add("prune")
		case 7:
			ctl := c12Ctl(r)
			for j, m := 0, c.Range(1, 3); j < m; j++ {
				ctl.Idontwant = append(ctl.Idontwant, &pb.ControlIDontWant{MessageIDs: c12IDs(c)})
			}
			add("idontwant")
		case 8:
			ctl := c12Ctl(r)
			e := &pb.ControlExtensions{}
			if c.Chance(0.7) {
				b := c.Chance(0.8)
				e.PartialMessages = &b
			}
			if c.Chance(0.7) {
				b := c.Chance(0.8)
				e.TestExtension = &b
			}
			ctl.Extensions = e
			add("extensions")
		case 9:
			pm := &pb.PartialMessagesExtension{}
			if c.Chance(0.9) {
				t := c12Str(c)
				pm.TopicID = &t
			}
			switch c.Intn(4) {
			case 0:
			case 1:
				pm.GroupID = []byte(fmt.Sprintf("g%d", c.Intn(400)))
			default:
				pm.GroupID = c11Bytes(c, c.Range(0, 40))
			}
			if c.Chance(0.6) {
				pm.PartialMessage = c11Bytes(c, c.Range(0, 200))
			}
			if c.Chance(0.6) {
				pm.PartsMetadata = c11Bytes(c, c.Range(0, 40))
			}
			r.Partial = pm
			add("partial")
		case 10:
			r.TestExtension = &pb.TestExtension{}
			add("testext")
		case 11:
			r.Control = &pb.ControlMessage{}
			add("empty_control")
		}
	}
	if c.Chance(0.1) {
		r.XXX_unrecognized = []byte{0x7a, 2, 1, 2}
	}
	return r, strings.Join(kinds, "+")
}

func c12Ctl(r *pb.RPC) *pb.ControlMessage {
	if r.Control == nil {
		r.Control = &pb.ControlMessage{}
	}
	return r.Control
}

func TestVerifC12Hostile(t *testing.T) {
	vRun(t, "C12.hostile", vCount(250, 8000), func(c *vCase) {
		c.Bubble(func() {
			router := []string{"gossipsub", "gossipsub", "gossipsub", "floodsub", "randomsub"}[c.Intn(5)]
			r := vNewRig(c)
			defer r.Close()
			store := &c20Store{m: map[peer.ID][]byte{}}
			app := newVScores()
			var filter SubscriptionFilter
			switch c.Intn(4) {
			case 0:
				filter = NewAllowlistSubscriptionFilter("t", "u", "f", "out")
			case 1:
				filter = NewRegexpSubscriptionFilter(regexp.MustCompile("^[a-z]+$"))
			case 2:
				filter = WrapLimitSubscriptionFilter(NewAllowlistSubscriptionFilter("t", "u", "f", "out"), c.Range(1, 50))
			}
			// (validators that run inside the validation workers instead of goroutines of their own: a worker then also hands the
			// validated message back to the event loop itself)
			inlineVal := c.Chance(0.4)
			defOpts := []ValidatorOpt{WithValidatorInline(inlineVal)}
			if !inlineVal && c.Chance(0.3) {
				// one or two runs of the default validator at a time: a slot that is never given back starves everybody
				defOpts = append(defOpts, WithValidatorConcurrency(c.Range(1, 2)))
			}
			opts := []Option{WithDefaultValidator(NewBasicSeqnoValidator(store, c20Discard), defOpts...), WithMaxMessageSize(1 << 20)}
			if filter != nil {
				opts = append(opts, WithSubscriptionFilter(filter))
			}
			// an application inspector that refuses a third of what the hostile peers send (by size) and nothing else
			var hostile sync.Map
			if c.Chance(0.3) {
				opts = append(opts, WithAppSpecificRpcInspector(func(from peer.ID, rpc *RPC) error {
					if _, bad := hostile.Load(from); bad && rpc.Size()%3 == 0 {
						return fmt.Errorf("refused by the application inspector")
					}
					return nil
				}))
			}
			maxSize := 1 << 20
			if c.Chance(0.3) {
				maxSize = c.Range(2000, 70000)
				opts = append(opts, WithMaxMessageSize(maxSize))
			}
			var pme *partialmessages.PartialMessagesExtension[c12PeerState]
			if router == "gossipsub" {
				params := vFastParams()
				params.PruneBackoff, params.UnsubscribeBackoff = 5*time.Second, 2*time.Second
				topicScore := &TopicScoreParams{TopicWeight: 1, InvalidMessageDeliveriesWeight: -0.0001, InvalidMessageDeliveriesDecay: 0.9, TimeInMeshQuantum: time.Second,
					TimeInMeshWeight: 0.001, TimeInMeshCap: 10, FirstMessageDeliveriesWeight: 1, FirstMessageDeliveriesDecay: 0.9, FirstMessageDeliveriesCap: 100}
				pme = &partialmessages.PartialMessagesExtension[c12PeerState]{Logger: c20Discard,
					OnEmitGossip: func(string, []byte, []peer.ID, map[peer.ID]c12PeerState) {},
					OnIncomingRPC: func(from peer.ID, st map[peer.ID]c12PeerState, rpc *pb.PartialMessagesExtension) error {
						st[from] = c12PeerState{st[from].n + 1}
						return nil
					},
					PeerInitiatedGroupLimitPerTopic: c.Range(1, 300), PeerInitiatedGroupLimitPerTopicPerPeer: c.Range(1, 20), GroupTTLByHeatbeat: c.Range(0, 3)}
				opts = append(opts, WithGossipSubParams(params), WithPeerExchange(true), WithFloodPublish(c.Chance(0.5)),
					WithPeerScore(&PeerScoreParams{AppSpecificScore: app.Get, AppSpecificWeight: 1, DecayInterval: time.Second, DecayToZero: 0.01,
						BehaviourPenaltyWeight: -0.0001, BehaviourPenaltyDecay: 0.9, IPColocationFactorWeight: -0.0001, IPColocationFactorThreshold: 1,
						Topics: map[string]*TopicScoreParams{"t": topicScore}, RetainScore: 5 * time.Second},
						&PeerScoreThresholds{GossipThreshold: -1e6, PublishThreshold: -2e6, GraylistThreshold: -3e6, AcceptPXThreshold: 0, OpportunisticGraftThreshold: 1}),
					WithPeerGater(NewPeerGaterParams(0.33, 0.9, 0.999)))
				if c.Chance(0.6) {
					opts = append(opts, WithTestExtension(TestExtensionConfig{OnReceiveTestExtension: func(peer.ID) {}}))
				}
				if c.Chance(0.6) {
					opts = append(opts, WithPartialMessagesExtension(pme))
				} else {
					pme = nil
				}
			}
			r.n.rsSize = []int{10, 100, 400}[c.Intn(3)]
			if err := r.Start(router, opts...); err != nil {
				c.Inconclusive("node: %v", err)
				return
			}
			nd, me := r.nd, r.nd.ID()
			nd.ps.RegisterTopicValidator("t", func(ctx context.Context, p peer.ID, m *Message) ValidationResult {
				if len(m.Data) > 0 && m.Data[0] == 'R' {
					return ValidationReject
				}
				if len(m.Data) > 1 && m.Data[0] == 'S' {
					// slow: the verdict arrives after whatever the sender does next (it ignores its context on purpose)
					time.Sleep(150 * time.Millisecond)
					if m.Data[1] == 'R' {
						return ValidationReject
					}
					if m.Data[1] == 'I' {
						return ValidationIgnore
					}
				}
				return ValidationAccept
			}, WithValidatorInline(inlineVal))
			var topicOpts []TopicOpt
			if router == "gossipsub" && pme != nil && c.Chance(0.5) {
				topicOpts = append(topicOpts, RequestPartialMessages())
			}
			tp, err := nd.ps.Join("t", topicOpts...)
			if err != nil {
				c.Inconclusive("join: %v", err)
				return
			}
			sub, err := tp.Subscribe()
			if err != nil {
				panic(err)
			}
			var mu sync.Mutex
			delivered := map[string]bool{}
			go func() {
				for {
					m, err := sub.Next(nd.ctx)
					if err != nil {
						return
					}
					mu.Lock()
					delivered[string(m.Data)] = true
					mu.Unlock()
				}
			}()
			protoFor := func() protocol.ID {
				switch router {
				case "floodsub":
					return FloodSubID
				case "randomsub":
					return []protocol.ID{RandomSubID, FloodSubID}[c.Intn(2)]
				}
				return append(vAllGossipProtos, FloodSubID)[c.Intn(5)]
			}
			H := r.NewPuppet("honest", protoFor(), "")
			oProto := protoFor()
			if router == "randomsub" {
				oProto = FloodSubID // randomsub samples among randomsub peers and always serves floodsub peers: the observer must be served
			}
			O := r.NewPuppet("observer", oProto, "")
			crowd := []*vPuppet{H, O}
			if router == "randomsub" {
				// a crowd of further quiet subscribers (a router that samples its recipients has something to sample from)
				for i, k := 0, c.Range(3, 10); i < k; i++ {
					crowd = append(crowd, r.NewPuppet(fmt.Sprintf("quiet%d", i), protoFor(), ""))
				}
			}
			for _, p := range crowd {
				if err := r.Attach(p, c.Chance(0.5)); err != nil {
					c.Inconclusive("attach")
					return
				}
				p.Send(me, vSubRPC(true, "t"))
			}
			nBad := c.Range(1, 3)
			var bad []*vPuppet
			unknown := map[*vPuppet]bool{}
			for i := 0; i < nBad; i++ {
				pr := protoFor()
				var p *vPuppet
				if c.Chance(0.25) {
					// an "unknown peer": it only ever opens its own stream; the node cannot open one to it
					p = r.n.NewPuppet(fmt.Sprintf("bad%d", i), "")
					p.protos = []protocol.ID{pr}
					r.pups = append(r.pups, p)
					unknown[p] = true
				} else {
					p = r.NewPuppet(fmt.Sprintf("bad%d", i), pr, "")
				}
				if err := r.Attach(p, c.Chance(0.5)); err != nil {
					c.Inconclusive("attach bad")
					return
				}
				if c.Chance(0.7) {
					p.Send(me, vSubRPC(true, "t"))
				}
				bad = append(bad, p)
				hostile.Store(p.ID(), true)
			}
			vSettle(150 * time.Millisecond)
			hseq := uint64(1)
			bseq := uint64(1 << 20)
			classes := map[string]int{}
			fail := func(cause map[string]string, format string, args ...any) {
				cause["router"] = router
				c.Violatef(cause, "router=%s: %s", router, fmt.Sprintf(format, args...))
			}
			probe := func(what string) bool {
				// 1. the event loop answers
				done := make(chan struct{})
				go func() { nd.ps.ListPeers(""); nd.ps.GetTopics(); close(done) }()
				synctest.Wait()
				select {
				case <-done:
				default:
					fail(map[string]string{"kind": "event_loop_blocked", "after": strings.Split(what, " ")[0]}, "the event loop does not answer ListPeers after %s", what)
					return false
				}
				// 2. the honest peer is still served
				hseq++
				data := fmt.Sprintf("honest-%d", hseq)
				om := O.WireLen()
				if err := H.Send(me, vMsgRPC(vSignedMsg(H.key, "t", vSeqno(hseq), []byte(data)))); err != nil {
					fail(map[string]string{"kind": "honest_stream_broken", "after": strings.Split(what, " ")[0]}, "the honest peer's stream failed after %s: %v", what, err)
					return false
				}
				vSettle(30 * time.Millisecond)
				mu.Lock()
				ok := delivered[data]
				mu.Unlock()
				fwd := false
				for _, wr := range O.WireSince(om) {
					for _, m := range wr.RPC.Publish {
						if string(m.Data) == data {
							fwd = true
						}
					}
				}
				if !ok || !fwd {
					fail(map[string]string{"kind": "honest_traffic_lost", "after": strings.Split(what, " ")[0]}, "after %s the honest peer's message was delivered=%v forwarded=%v", what, ok, fwd)
					return false
				}
				return true
			}
			// dials to addresses learnt from peer exchange go nowhere: each attempt takes twenty (virtual) seconds
			slowDials := router == "gossipsub" && c.Chance(0.5)
			if slowDials {
				nd.h.inj.add(&vRule{op: vOpConnect, delay: 20 * time.Second, err: fmt.Errorf("dial timeout (injected)")})
			}
			nIn := c.Range(6, 24)
			for i := 0; i < nIn && !c.Violated(); i++ {
				p := bad[c.Intn(nBad)]
				if slowDials && !unknown[p] && (i == 0 || c.Chance(0.05)) {
					// peer exchange flood: one well-formed RPC whose PRUNEs for the joined topic name far more (validly
					// signed, unreachable) peers than the connectors and their backlog can take
					ctl := &pb.ControlMessage{}
					nPr := c.Range(9, 20)
					for j := 0; j < nPr; j++ {
						t, bo := "t", uint64(c.Range(1, 5))
						pr := &pb.ControlPrune{TopicID: &t, Backoff: &bo}
						for k := 0; k < 16; k++ {
							id, _, rec := c09Record(c, r.n)
							pr.Peers = append(pr.Peers, &pb.PeerInfo{PeerID: []byte(id), SignedPeerRecord: rec})
						}
						ctl.Prune = append(ctl.Prune, pr)
					}
					what := fmt.Sprintf("pxflood (%d PRUNE x 16 peers) from %s (%s)", nPr, p.name, p.protos[0])
					c.Crumb("%s", what)
					p.Send(me, &pb.RPC{Control: ctl})
					vSettle(30 * time.Millisecond)
					classes["pxflood"]++
					c.Count("px_dials_started", len(nd.h.Connects()))
					if !probe(what) {
						break
					}
					continue
				}
				if router == "gossipsub" && !unknown[p] && c.Chance(0.06) {
					// advertisements that use up the peer's request budget for this heartbeat to the last ID, then one more
					tt := "t"
					budget := nd.gs.params.MaxIHaveLength
					parts := c.Range(1, 3)
					bseq++
					base := bseq
					for k := 0; k < parts; k++ {
						lo, hi := k*budget/parts, (k+1)*budget/parts
						ids := make([]string, 0, hi-lo)
						for j := lo; j < hi; j++ {
							ids = append(ids, fmt.Sprintf("adv-%d-%d", base, j))
						}
						p.Send(me, &pb.RPC{Control: &pb.ControlMessage{Ihave: []*pb.ControlIHave{{TopicID: &tt, MessageIDs: ids}}}})
					}
					p.Send(me, &pb.RPC{Control: &pb.ControlMessage{Ihave: []*pb.ControlIHave{{TopicID: &tt, MessageIDs: []string{fmt.Sprintf("adv-%d-one-more", base)}}}}})
					what := fmt.Sprintf("ihave_budget (%d IDs in %d advertisements, then one more) from %s (%s)", budget, parts, p.name, p.protos[0])
					c.Crumb("%s", what)
					vSettle(30 * time.Millisecond)
					classes["ihave_budget"]++
					if !probe(what) {
						break
					}
					continue
				}
				if c.Chance(0.06) {
					// one well-formed RPC with far more fresh, correctly signed messages for the subscribed topic than the
					// validation queue, the workers and the hand-back channel hold together
					k := c.Range(80, 250)
					rpc := &pb.RPC{}
					for j := 0; j < k; j++ {
						bseq++
						rpc.Publish = append(rpc.Publish, vSignedMsg(p.key, "t", vSeqno(bseq), []byte(fmt.Sprintf("flood-%d", bseq))))
					}
					what := fmt.Sprintf("msgflood (%d signed messages in one RPC) from %s (%s)", k, p.name, p.protos[0])
					c.Crumb("%s", what)
					p.Send(me, rpc)
					vSettle(30 * time.Millisecond)
					classes["msgflood"]++
					if !probe(what) {
						break
					}
					continue
				}
				if !unknown[p] && c.Chance(0.08) {
					// the peer stays connected, keeps its own stream, and resets every stream the node opens to it until the
					// node gives up respawning its writer; traffic for the topic the peer announced must not hurt the node then
					what := fmt.Sprintf("refuse_outbound from %s (%s)", p.name, p.protos[0])
					c.Crumb("%s", what)
					p.Refuse(true)
					p.CloseIn(me, true)
					vSettle(time.Duration(c.Range(1, 8)) * time.Second)
					p.Send(me, vSubRPC(true, "t"))
					vSettle(30 * time.Millisecond)
					classes["refuse_outbound"]++
					ok := probe(what)
					if ok {
						// local announcements and the router's own traffic go to every known peer as well
						if tp2, err := nd.ps.Join("u"); err == nil {
							if s2, err := tp2.Subscribe(); err == nil {
								vSettle(30 * time.Millisecond)
								s2.Cancel()
							}
							vSettle(30 * time.Millisecond)
							tp2.Close()
						}
						ok = probe(what + " + local announcement")
					}
					p.Refuse(false)
					if !ok {
						break
					}
					continue
				}
				if !unknown[p] && c.Chance(0.12) {
					// a message that sits in a slow validator while its sender tears the connection (or just its streams)
					// down; the verdict (accept / reject / ignore) arrives when the sender is gone, then the sender returns
					bseq++
					verdict := []string{"A", "R", "I"}[c.Intn(3)]
					how := []string{"disconnect", "reset_streams", "stay"}[c.Intn(3)]
					data := fmt.Sprintf("S%s-vanish-%d", verdict, bseq)
					what := fmt.Sprintf("vanish[%s,%s] from %s (%s)", verdict, how, p.name, p.protos[0])
					c.Crumb("%s", what)
					p.Send(me, vMsgRPC(vSignedMsg(p.key, "t", vSeqno(bseq), []byte(data))))
					vSettle(time.Duration(c.Range(0, 100)) * time.Millisecond)
					switch how {
					case "disconnect":
						r.n.Disconnect(me, p.ID())
						p.ForgetStreams()
					case "reset_streams":
						p.CloseOut(me, true)
						p.CloseIn(me, true)
					}
					vSettle(400 * time.Millisecond)
					classes["vanish:"+how+"/"+verdict]++
					if !probe(what) {
						break
					}
					if how == "disconnect" {
						if err := r.Attach(p, c.Chance(0.5)); err != nil {
							fail(map[string]string{"kind": "cannot_reconnect", "input": "vanish"}, "cannot reconnect after %s: %v", what, err)
							break
						}
					} else if how == "reset_streams" {
						vSettle(300 * time.Millisecond)
						if _, err := p.Open(me); err != nil {
							fail(map[string]string{"kind": "cannot_reopen_stream", "input": "vanish"}, "cannot open a new stream after %s: %v", what, err)
							break
						}
					}
					continue
				}
				if c.Chance(0.75) {
					rpc, kinds := c12RPC(c, r.n, p, me, &bseq)
					b, err := rpc.Marshal()
					if err != nil {
						continue
					}
					what := fmt.Sprintf("rpc[%s] (%d bytes) from %s (%s, unknown=%v)", kinds, len(b), p.name, p.protos[0], unknown[p])
					c.Crumb("%s", what)
					if len(b) > maxSize {
						classes["rpc_oversize"]++
					}
					if err := p.SendRaw(me, vFrame(b)); err != nil {
						p.CloseOut(me, true)
						if _, err := p.Open(me); err != nil {
							continue
						}
						p.SendRaw(me, vFrame(b))
					}
					vSettle(30 * time.Millisecond)
					classes["rpc:"+strings.Split(kinds, "+")[0]]++
					if !probe(what) {
						break
					}
				} else {
					var raw []byte
					kind := ""
					expectReset := false
					switch c.Intn(7) {
					case 0:
						kind = "random_bytes"
						raw = c11Bytes(c, c.Range(1, 400))
					case 1:
						kind = "length_prefix_over_limit"
						raw = binary.AppendUvarint(nil, uint64(maxSize+1+c.Intn(1000)))
						raw = append(raw, c11Bytes(c, 50)...)
						expectReset = true
					case 2:
						kind = "truncated_frame"
						raw = append(binary.AppendUvarint(nil, 500), c11Bytes(c, 20)...)
					case 3:
						kind = "zero_length_frames"
						raw = []byte{0, 0, 0, 0}
					case 4:
						kind = "valid_frame_then_undecodable_frame"
						g, _ := vSubRPC(true, "t").Marshal()
						junk := []byte{0x0a, 0xff, 0xff, 0xff, 0xff, 0x0f, 1, 2, 3} // field 1, absurd length
						raw = append(vFrame(g), vFrame(junk)...)
						expectReset = true
					case 5:
						kind = "ten_byte_varint"
						raw = []byte{0xff, 0xff, 0xff, 0xff, 0xff, 0xff, 0xff, 0xff, 0xff, 0x7f, 1, 2, 3}
						expectReset = true
					case 6:
						kind = "undecodable_frame"
						junk := []byte{0x12, 0x05, 0x0a, 0xff, 0xff, 0xff, 0x0f} // publish{ from: length beyond the end }
						raw = vFrame(junk)
						expectReset = true
					}
					what := fmt.Sprintf("bytes[%s] (%d bytes) from %s (%s)", kind, len(raw), p.name, p.protos[0])
					c.Crumb("%s", what)
					p.SendRawTimeout(me, raw, 200*time.Millisecond)
					vSettle(30 * time.Millisecond)
					classes["bytes:"+kind]++
					if expectReset {
						// the offending stream, and only it, is reset: the puppet's next writes must fail
						var werr error
						for k := 0; k < 3 && werr == nil; k++ {
							werr = p.SendRawTimeout(me, []byte{0}, 200*time.Millisecond)
							vSettle(10 * time.Millisecond)
						}
						if werr == nil || werr == errVWriteStalled {
							fail(map[string]string{"kind": "bad_frame_stream_not_reset", "input": kind}, "stream still writable after %s", what)
						}
						classes["stream_reset_observed"]++
					}
					// start over on a fresh stream (truncated frames leave the old one waiting for more bytes)
					p.CloseOut(me, true)
					vSettle(10 * time.Millisecond)
					if _, err := p.Open(me); err != nil {
						fail(map[string]string{"kind": "cannot_reopen_stream", "input": kind}, "cannot open a new stream after %s: %v", what, err)
						break
					}
					if !probe(what) {
						break
					}
				}
				if c.Chance(0.2) {
					r.ToNextGap(20 * time.Millisecond) // let a heartbeat chew on the state the input left behind
					if !probe("heartbeat") {
						break
					}
				}
			}
			// a few heartbeats at the end (score decay, gossip, backoff sweeps run over whatever the inputs left)
			if !c.Violated() {
				vSettle(3 * time.Second)
				probe("final heartbeats")
			}
			for k, v := range classes {
				c.Count("class:"+k, v)
			}
			c.Count("inputs", nIn)
			var ks []string
			for k := range classes {
				ks = append(ks, k)
			}
			c.Sig(router, len(ks), nBad, fmt.Sprint(classes))
			c.Nontrivial(len(ks) >= 3)
			if c.Idx < 3 {
				c.Sample(map[string]any{"router": router, "hostile_peers": nBad, "inputs": nIn, "classes": classes})
			}
		})
	})
}

// C12.flood — the same claim under real-time contention (no bubble, race
// detector on): 4..8 raw peers flood a gossipsub node with well-formed RPCs as
// fast as they can while some of them reset the node's outbound stream, close
// or reset their own stream and come back. Afterwards the event loop must
// answer. A probe that does not return is judged from a goroutine dump: the
// event loop (or a goroutine it waits for) sitting in a mutex / channel
// operation of the library is a stall; anything else is inconclusive.
func TestVerifC12Flood(t *testing.T) {
	vRun(t, "C12.flood", vCount(60, 1500), func(c *vCase) {
		vRealTime.Store(true)
		defer vRealTime.Store(false)
		r := vNewRig(c)
		r.n.noWait = true
		defer r.Close()
		app := newVScores()
		opts := []Option{WithPeerOutboundQueueSize(c.Range(4, 64))}
		if c.Chance(0.5) {
			p := vFastParams()
			p.HeartbeatInterval = 50 * time.Millisecond
			opts = append(opts, WithGossipSubParams(p), WithPeerScore(&PeerScoreParams{AppSpecificScore: app.Get, AppSpecificWeight: 1, DecayInterval: time.Second, DecayToZero: 0.01,
				Topics: map[string]*TopicScoreParams{}}, &PeerScoreThresholds{GossipThreshold: -1e6, PublishThreshold: -2e6, GraylistThreshold: -3e6, AcceptPXThreshold: 1e6, OpportunisticGraftThreshold: 1}))
		}
		if err := r.Start("gossipsub", opts...); err != nil {
			c.Inconclusive("node: %v", err)
			return
		}
		nd, me := r.nd, r.nd.ID()
		sub, err := nd.ps.Subscribe("t")
		if err != nil {
			panic(err)
		}
		go func() {
			for {
				if _, err := sub.Next(nd.ctx); err != nil {
					return
				}
			}
		}()
		nP := c.Range(4, 8)
		var pups []*vPuppet
		for i := 0; i < nP; i++ {
			p := r.NewPuppet(fmt.Sprintf("f%d", i), vAllGossipProtos[c.Intn(4)], "")
			if err := r.Attach(p, c.Chance(0.5)); err != nil {
				c.Inconclusive("attach: %v", err)
				return
			}
			p.Send(me, vSubRPC(true, "t"))
			pups = append(pups, p)
		}
		time.Sleep(20 * time.Millisecond)
		// plans are drawn up front
		type act struct {
			kind int
			n    int
		}
		plans := make([][]act, nP)
		for i := range plans {
			for k, K := 0, c.Range(3, 8); k < K; k++ {
				plans[i] = append(plans[i], act{kind: c.Intn(6), n: c.Range(20, 200)})
			}
		}
		var wg sync.WaitGroup
		var sent atomic.Int64
		for i, p := range pups {
			wg.Add(1)
			go func(i int, p *vPuppet) {
				defer wg.Done()
				seq := uint64(i) << 32
				for _, a := range plans[i] {
					switch a.kind {
					case 0, 1, 2: // a burst of small well-formed RPCs
						for k := 0; k < a.n; k++ {
							var rpc *pb.RPC
							switch k % 4 {
							case 0:
								rpc = vSubRPC(k%8 == 0, fmt.Sprintf("x%d", k%3))
							case 1:
								tt := "t"
								rpc = &pb.RPC{Control: &pb.ControlMessage{Ihave: []*pb.ControlIHave{{TopicID: &tt, MessageIDs: []string{fmt.Sprintf("i%d-%d", i, k)}}}}}
							case 2:
								rpc = vGraftRPC("t")
							default:
								seq++
								rpc = vMsgRPC(vSignedMsg(p.key, "t", vSeqno(seq), []byte(fmt.Sprintf("m%d-%d", i, k))))
							}
							b, _ := rpc.Marshal()
							if p.SendRawTimeout(me, vFrame(b), 2*time.Second) != nil {
								break
							}
							sent.Add(1)
						}
					case 3: // reset the node's outbound stream and close our own, then come back
						p.CloseIn(me, true)
						p.CloseOut(me, false)
						time.Sleep(time.Duration(a.n) * 20 * time.Microsecond)
						p.Open(me)
					case 4: // reset our own stream mid-flood
						p.CloseOut(me, true)
						p.Open(me)
					case 5:
						p.CloseIn(me, true)
					}
				}
			}(i, p)
		}
		wg.Wait()
		// ---- the probe
		done := make(chan struct{})
		go func() { nd.ps.GetTopics(); nd.ps.ListPeers("t"); close(done) }()
		select {
		case <-done:
		case <-time.After(20 * time.Second):
			dump := make([]byte, 4<<20)
			dump = dump[:runtime.Stack(dump, true)]
			var loop, holders []string
			for _, g := range strings.Split(string(dump), "\n\n") {
				if !strings.Contains(g, "go-libp2p-pubsub") || strings.Contains(g, "TestVerifC12Flood.func1.") && !strings.Contains(g, "pubsub.(*PubSub)") {
					continue
				}
				hdr := g[:strings.IndexByte(g+"\n", '\n')]
				if strings.Contains(g, "(*PubSub).processLoop") {
					loop = append(loop, g)
				} else if strings.Contains(hdr, "[chan send") || strings.Contains(hdr, "[sync.Mutex.Lock") || strings.Contains(hdr, "[sync.RWMutex") || strings.Contains(hdr, "[semacquire") {
					holders = append(holders, g)
				}
			}
			blocked := len(loop) > 0 && (strings.Contains(loop[0], "sync.Mutex.Lock") || strings.Contains(loop[0], "sync.(*Mutex).Lock") || strings.Contains(loop[0], "sync.(*RWMutex)") || strings.Contains(loop[0], "[chan send") || strings.Contains(loop[0], "[chan receive"))
			if blocked {
				if len(holders) > 4 {
					holders = holders[:4]
				}
				// the node cannot be torn down any more: report like the stall watcher does and end the child (the runner
				// attributes the crash to this case, names the first library frame of the event loop, and restarts behind it)
				fmt.Printf("fatal error: VERIF-STALL case %d: the event loop does not answer 20 s after the flood ended and sits in a lock / channel operation\n\n%s\n\n%s\n", c.Idx, loop[0], strings.Join(holders, "\n\n"))
				os.Stdout.Sync()
				os.Exit(3)
			}
			c.Inconclusive("probe did not return within 20 s but the event loop is not in a lock or channel wait")
			return
		}
		c.Sig(nP, sent.Load()/200)
		c.Nontrivial(sent.Load() > 100)
		c.Count("rpcs_sent", int(sent.Load()))
		c.State(nP)
		if c.Idx < 2 {
			c.Sample(map[string]any{"peers": nP, "rpcs_sent": sent.Load(), "plans": fmt.Sprint(plans[0])})
		}
	})
}
