//go:build verif

package pubsub

// C05 — interest announcements converge to the true subscription state.
// 3..6 real nodes (router mix) with one observer puppet each; PRNG histories of
// subscribe / cancel (also double) / relay / relay-cancel (also double) /
// Topic.Close / fanout-only topics / connect / disconnect / reconnect, small
// outbound queues with stalled readers (announce retry path) and
// single-direction pubsub stream resets while the connection survives.
// At quiescence every node's peer list per topic must equal the connected,
// interested peers (harness reference counts).

import (
	"context"
	"errors"
	"fmt"
	"sort"
	"strings"
	"testing"
	"testing/synctest"
	"time"

	"github.com/libp2p/go-libp2p/core/network"
	"github.com/libp2p/go-libp2p/core/peer"
)

type c05Node struct {
	nd       *vNode
	router   string
	obs      *vPuppet
	handles  map[string]*Topic
	fanout   map[string]bool // topic joined with FanoutOnly()
	subs     map[string][]*Subscription
	dead     []*Subscription // cancelled subscriptions (for double cancel)
	relays   map[string][]RelayCancelFunc
	deadRel  []RelayCancelFunc
	everInt  map[string]bool // topics the node ever announced interest in
	buffered map[*Subscription]int
	scores   *vScores // application scores this node gives its peers (gossipsub with scoring), nil otherwise
}

func (x *c05Node) interest(t string) bool {
	if x.fanout[t] {
		return len(x.relays[t]) > 0
	}
	return len(x.subs[t]) > 0 || len(x.relays[t]) > 0
}

func TestVerifC05Interest(t *testing.T) {
	vRun(t, "C05.interest", vCount(600, 10000), func(c *vCase) {
		c.Bubble(func() {
			n := newVNet(c)
			var nodes []*c05Node
			defer func() {
				for _, x := range nodes {
					x.nd.cancel()
				}
				n.Close()
				vSettle(0)
			}()
			topics := []string{"a", "b", "c"}
			N := c.Range(3, 6)
			smallQ := c.Chance(0.4)
			allowResets := c.Chance(0.5)
			for i := 0; i < N; i++ {
				router := []string{"gossipsub", "gossipsub", "floodsub", "randomsub"}[c.Intn(4)]
				var opts []Option
				if smallQ {
					opts = append(opts, WithPeerOutboundQueueSize(c.Range(1, 2)))
				}
				if router == "gossipsub" {
					p := vFastParams()
					p.PruneBackoff, p.UnsubscribeBackoff = 3*time.Second, time.Second
					opts = append(opts, WithGossipSubParams(p))
				}
				// receiving side options that must not change what a node learns from announcements: peer scoring (a peer may be
				// graylisted at the moment it announces), a subscription filter whose limit equals the largest possible hello
				var scores *vScores
				if router == "gossipsub" && c.Chance(0.4) {
					scores = newVScores()
					opts = append(opts, WithPeerScore(&PeerScoreParams{AppSpecificScore: scores.Get, AppSpecificWeight: 1, DecayInterval: time.Second, DecayToZero: 0.01},
						&PeerScoreThresholds{GossipThreshold: -10, PublishThreshold: -20, GraylistThreshold: -30, AcceptPXThreshold: 10, OpportunisticGraftThreshold: 1}))
				}
				if c.Chance(0.4) {
					opts = append(opts, WithSubscriptionFilter(WrapLimitSubscriptionFilter(NewAllowlistSubscriptionFilter(topics...), len(topics))))
					c.Count("nodes_with_limit_filter", 1)
				}
				nd, err := n.NewNode(fmt.Sprintf("n%d", i), router, opts...)
				if err != nil {
					panic(err)
				}
				x := &c05Node{nd: nd, router: router, scores: scores, handles: map[string]*Topic{}, fanout: map[string]bool{}, subs: map[string][]*Subscription{},
					relays: map[string][]RelayCancelFunc{}, everInt: map[string]bool{}, buffered: map[*Subscription]int{}}
				x.obs = n.NewPuppet(fmt.Sprintf("obs%d", i), "", FloodSubID)
				nodes = append(nodes, x)
			}
			edges := map[[2]int]bool{}
			resets := map[[2]int]int{} // ordered pair -> number of resets of a's outbound stream to b
			var hist []string
			note := func(f string, a ...any) {
				hist = append(hist, fmt.Sprintf("+%v ", time.Since(nodes[0].nd.tr.bornOr()).Round(time.Millisecond))+fmt.Sprintf(f, a...))
			}
			for _, x := range nodes {
				n.Connect(x.obs.ID(), x.nd.ID())
				vSettle(20 * time.Millisecond)
				x.obs.Open(x.nd.ID())
			}
			vSettle(50 * time.Millisecond)
			// a slow observer: every write of the node to it takes 2 virtual seconds (injected at the stream
			// boundary; mocknet buffers small writes, so a reader that merely stops reading does not push back)
			slow := map[*c05Node]bool{}
			setSlow := func(x *c05Node, on bool) {
				x.nd.h.inj.clear()
				if on {
					x.nd.h.inj.add(&vRule{op: vOpWrite, peer: x.obs.ID(), delay: 2 * time.Second})
				}
				slow[x] = on
			}
			if smallQ {
				for _, x := range nodes {
					if c.Chance(0.5) {
						setSlow(x, true)
					}
				}
			}
			// (a fifth of the cases join most topics fanout-only: subscriptions there are never announced, relays are)
			foP := 0.15
			if c.Chance(0.2) {
				foP = 0.6
			}
			handle := func(x *c05Node, t string) (*Topic, error) {
				if h := x.handles[t]; h != nil {
					return h, nil
				}
				var opts []TopicOpt
				fo := c.Chance(foP)
				if fo {
					opts = append(opts, FanoutOnly())
				}
				h, err := x.nd.ps.Join(t, opts...)
				if err != nil {
					return nil, err
				}
				x.handles[t] = h
				x.fanout[t] = fo
				return h, nil
			}
			fail := func(cause map[string]string, format string, args ...any) {
				h := hist
				if len(h) > 60 {
					h = h[len(h)-60:]
				}
				c.Violatef(cause, "%s\n smallQueues=%v history=%v", fmt.Sprintf(format, args...), smallQ, h)
			}
			setEdge := func(i, j int, on bool) {
				if i > j {
					i, j = j, i
				}
				k := [2]int{i, j}
				if on == edges[k] {
					return
				}
				a, b := nodes[i].nd.ID(), nodes[j].nd.ID()
				if on {
					if c.Chance(0.5) {
						a, b = b, a
					}
					n.Connect(a, b)
					edges[k] = true
				} else {
					n.Disconnect(a, b)
					delete(edges, k)
					delete(resets, [2]int{i, j})
					delete(resets, [2]int{j, i})
				}
			}
			resetOutbound := func(i, j int) bool {
				// reset node i's outbound pubsub stream to node j; the connection stays up
				a, b := nodes[i], nodes[j]
				for _, conn := range a.nd.h.Host.Network().ConnsToPeer(b.nd.ID()) {
					for _, s := range conn.GetStreams() {
						if s.Stat().Direction == network.DirOutbound && strings.Contains(string(s.Protocol()), "sub/") {
							s.Reset()
							return true
						}
					}
				}
				return false
			}
			// a raw-wire subscriber attached to one node: it announces topics on its stream and sometimes replaces that
			// stream by a new one whose first packet lists another set (the node must end up with the latest set only)
			var rsub *vPuppet
			rsubAt := nodes[c.Intn(N)]
			rsubState := map[string]bool{}
			if c.Chance(0.6) {
				rsub = n.NewPuppet("rsub", "", FloodSubID)
				n.Connect(rsub.ID(), rsubAt.nd.ID())
				vSettle(20 * time.Millisecond)
				rsub.Open(rsubAt.nd.ID())
				vSettle(20 * time.Millisecond)
			}
			nOps := c.Range(5, 40)
			// half of the cases concentrate on one or two topics and two or three acting nodes, so that
			// subscriptions, relays and their releases pile up on the same (node, topic)
			actTopics, actNodes := len(topics), N
			if c.Chance(0.5) {
				actTopics, actNodes = c.Range(1, 2), min(N, c.Range(2, 3))
			}
			for op := 0; op < nOps && !c.Violated(); op++ {
				x := nodes[c.Intn(actNodes)]
				t := topics[c.Intn(actTopics)]
				opk := c.Intn(15)
				if rsub != nil && c.Chance(0.15) {
					opk = 15
				}
				if x.scores != nil && c.Chance(0.2) {
					opk = 16
				}
				if smallQ && c.Chance(0.08) {
					opk = 17
				}
				if smallQ && c.Chance(0.08) {
					opk = 18
				}
				switch opk {
				case 18:
					// interest that lasts no time at all: subscribe and cancel back to back (both announcements are handed to
					// queues that are still busy with earlier ones; they must come out in that order)
					h, err := handle(x, t)
					if err != nil || x.fanout[t] {
						break
					}
					if s, err := h.Subscribe(); err == nil {
						x.everInt[t] = true
						s.Cancel()
						x.dead = append(x.dead, s)
						note("%s.subscribe_cancel(%s)", x.nd.name, t)
						c.Count("subscribe_cancel_back_to_back", 1)
					}
				case 17:
					// A topic with announced subscriptions is given up and joined again fanout-only within the same instant, while the
					// announcements queue up behind a full outbound queue: the withdrawal may be dropped and has to be retried although
					// the topic has a (never announced) subscription again by then.
					h := x.handles[t]
					if h == nil || x.fanout[t] || len(x.subs[t]) == 0 || len(x.relays[t]) > 0 {
						break
					}
					// fill the queues: a few announcements of a throw-away topic
					x.everInt["filler"] = true
					if th, err := x.nd.ps.Join("filler"); err == nil {
						for k := 0; k < 3; k++ {
							if fs, err := th.Subscribe(); err == nil {
								fs.Cancel()
							}
						}
						defer th.Close()
					}
					for _, s := range x.subs[t] {
						s.Cancel()
						x.dead = append(x.dead, s)
					}
					x.subs[t] = nil
					if err := h.Close(); err != nil {
						fail(map[string]string{"kind": "topic_close_result"}, "%s.Close(%s) returned %v with no subscription and no relay left", x.nd.name, t, err)
						break
					}
					delete(x.handles, t)
					delete(x.fanout, t)
					nh, err := x.nd.ps.Join(t, FanoutOnly())
					if err != nil {
						break
					}
					x.handles[t], x.fanout[t] = nh, true
					if s, err := nh.Subscribe(); err == nil {
						x.subs[t] = append(x.subs[t], s)
					}
					note("%s.rejoin_fanout_only(%s)", x.nd.name, t)
					c.Count("rejoined_fanout_only", 1)
				case 16:
					// the node's opinion of one of the others changes: far below the graylist threshold, or back to neutral
					y := nodes[c.Intn(N)]
					v := []float64{-100, -100, 0}[c.Intn(3)]
					x.scores.Set(y.nd.ID(), v)
					note("score(%s gives %s %v)", x.nd.name, y.nd.name, v)
					c.Count("score_changes", 1)
				case 15:
					if c.Chance(0.6) {
						on := !rsubState[t]
						rsub.Send(rsubAt.nd.ID(), vSubRPC(on, t))
						rsubState[t] = on
						note("rsub.announce(%s,%v)", t, on)
					} else {
						// a new stream (the old one is still open when it arrives) greeting with a PRNG subset
						var set []string
						for _, tt := range topics {
							rsubState[tt] = c.Chance(0.5)
							if rsubState[tt] {
								set = append(set, tt)
							}
						}
						if _, err := rsub.OpenNew(rsubAt.nd.ID()); err == nil {
							if len(set) > 0 {
								rsub.Send(rsubAt.nd.ID(), vSubRPC(true, set...))
							} else {
								// streams are negotiated lazily: something has to be written for the node to see it at all
								rsub.Send(rsubAt.nd.ID(), vSubRPC(false, "unrelated"))
							}
						}
						note("rsub.new_stream(%v)", set)
						c.Count("remote_subscriber_restreams", 1)
					}
				case 0, 1, 2:
					h, err := handle(x, t)
					if err != nil {
						continue
					}
					s, err := h.Subscribe()
					if err != nil {
						continue
					}
					x.subs[t] = append(x.subs[t], s)
					if !x.fanout[t] {
						x.everInt[t] = true
					}
					note("%s.subscribe(%s fanoutOnly=%v)", x.nd.name, t, x.fanout[t])
				case 3, 4:
					if l := x.subs[t]; len(l) > 0 {
						k := c.Intn(len(l))
						s := l[k]
						// some messages are buffered first: they must still come out after Cancel
						nb := c.Range(0, 3)
						for b := 0; b < nb; b++ {
							x.handles[t].Publish(context.Background(), []byte(fmt.Sprintf("buffered-%d-%d", op, b)))
						}
						vSettle(10 * time.Millisecond)
						x.subs[t] = append(l[:k:k], l[k+1:]...)
						s.Cancel()
						x.dead = append(x.dead, s)
						note("%s.cancel(%s)", x.nd.name, t)
						// drain: buffered messages, then ErrSubscriptionCancelled, never blocking
						vSettle(10 * time.Millisecond)
						type res struct {
							n   int
							err error
						}
						done := make(chan res, 1)
						go func() {
							k := 0
							for {
								_, err := s.Next(context.Background())
								if err != nil {
									done <- res{k, err}
									return
								}
								k++
							}
						}()
						synctest.Wait()
						select {
						case r := <-done:
							if !errors.Is(r.err, ErrSubscriptionCancelled) {
								fail(map[string]string{"kind": "cancelled_subscription_error"}, "Next on a cancelled subscription returned %v after %d messages", r.err, r.n)
							}
							c.Count("drained_after_cancel", r.n)
						default:
							fail(map[string]string{"kind": "cancelled_subscription_blocks"}, "Next on a cancelled subscription of %s blocks", x.nd.name)
							return
						}
					}
				case 5:
					if len(x.dead) > 0 {
						x.dead[c.Intn(len(x.dead))].Cancel() // double cancel
						note("%s.cancel_again", x.nd.name)
					}
				case 6, 7:
					h, err := handle(x, t)
					if err != nil {
						continue
					}
					r, err := h.Relay()
					if err != nil {
						if !(x.fanout[t] && errors.Is(err, ErrFanoutOnlyTopic)) {
							fail(map[string]string{"kind": "relay_error"}, "Relay returned %v", err)
						}
						continue
					}
					if x.fanout[t] {
						fail(map[string]string{"kind": "relay_on_fanout_only"}, "Relay on a fanout-only topic succeeded")
					}
					x.relays[t] = append(x.relays[t], r)
					x.everInt[t] = true
					note("%s.relay(%s)", x.nd.name, t)
				case 8:
					if l := x.relays[t]; len(l) > 0 {
						r := l[len(l)-1]
						x.relays[t] = l[:len(l)-1]
						r()
						x.deadRel = append(x.deadRel, r)
						note("%s.relay_cancel(%s)", x.nd.name, t)
					} else if len(x.deadRel) > 0 {
						x.deadRel[c.Intn(len(x.deadRel))]() // double cancel
						note("%s.relay_cancel_again", x.nd.name)
					}
				case 9:
					if h := x.handles[t]; h != nil {
						err := h.Close()
						busy := len(x.subs[t]) > 0 || len(x.relays[t]) > 0
						if (err != nil) != busy {
							fail(map[string]string{"kind": "topic_close_result"}, "%s.Close(%s) returned %v with %d subscriptions and %d relays", x.nd.name, t, err, len(x.subs[t]), len(x.relays[t]))
						}
						if err == nil {
							delete(x.handles, t)
							delete(x.fanout, t)
						}
						note("%s.close(%s)=%v", x.nd.name, t, err)
					}
				case 10, 11:
					i, j := c.Intn(N), c.Intn(N)
					if i != j {
						a, b := i, j
						if a > b {
							a, b = b, a
						}
						on := !edges[[2]int{a, b}]
						setEdge(i, j, on)
						note("edge(%d,%d)=%v", i, j, on)
					}
				case 12:
					if allowResets {
						i, j := c.Intn(N), c.Intn(N)
						a, b := i, j
						if a > b {
							a, b = b, a
						}
						if i != j && edges[[2]int{a, b}] && resets[[2]int{i, j}] < 3 {
							if resetOutbound(i, j) {
								resets[[2]int{i, j}]++
								note("reset_outbound(n%d->n%d)", i, j)
								c.Count("single_direction_resets", 1)
							}
						}
					}
				case 13, 14:
					if smallQ {
						setSlow(x, !slow[x])
						note("%s.observer_slow=%v", x.nd.name, slow[x])
					}
				}
				vSettle(time.Duration(c.Range(0, 400)) * time.Millisecond)
			}
			for _, x := range nodes {
				setSlow(x, false)
			}
			// ---- quiescence: announce retries (<= 1s each), dead-peer backoff (<= a few hundred ms x attempts), heartbeats
			vSettle(20 * time.Second)
			// ---- late comers: what a node tells a peer that connects only now (hello packet) must be its interest too;
			// and some existing edges are torn down and rebuilt so that nodes greet each other afresh
			late := map[*c05Node]*vPuppet{}
			for i, x := range nodes {
				if c.Chance(0.6) {
					lp := n.NewPuppet(fmt.Sprintf("late%d", i), "", FloodSubID)
					n.Connect(lp.ID(), x.nd.ID())
					vSettle(20 * time.Millisecond)
					lp.Open(x.nd.ID())
					late[x] = lp
				}
			}
			for k, K := 0, c.Range(0, 2); k < K; k++ {
				i, j := c.Intn(N), c.Intn(N)
				a, b := i, j
				if a > b {
					a, b = b, a
				}
				if i != j && edges[[2]int{a, b}] {
					setEdge(i, j, false)
					vSettle(time.Duration(c.Range(50, 1500)) * time.Millisecond)
					setEdge(i, j, true)
					note("edge(%d,%d) rebuilt", i, j)
					c.Count("edges_rebuilt", 1)
				}
			}
			vSettle(5 * time.Second)
			// ---- oracle
			for i, x := range nodes {
				for _, t := range topics {
					want := map[peer.ID]bool{}
					for j, y := range nodes {
						a, b := i, j
						if a > b {
							a, b = b, a
						}
						if i != j && edges[[2]int{a, b}] && y.interest(t) {
							want[y.nd.ID()] = true
						}
					}
					if rsub != nil && x == rsubAt && rsubState[t] {
						want[rsub.ID()] = true
					}
					got := x.nd.ps.ListPeers(t)
					gm := map[peer.ID]bool{}
					for _, p := range got {
						if p != x.obs.ID() {
							gm[p] = true
						}
					}
					for p := range want {
						if !gm[p] {
							j := 0
							for k, y := range nodes {
								if y.nd.ID() == p {
									j = k
								}
							}
							cause := "unknown"
							switch {
							case rsub != nil && p == rsub.ID():
								cause = "remote_subscriber"
							case resets[[2]int{i, j}] > 0:
								cause = "own_outbound_stream_was_reset"
							case resets[[2]int{j, i}] > 0:
								cause = "peers_outbound_stream_was_reset"
							}
							fail(map[string]string{"kind": "interested_peer_missing", "after": cause}, "%s.ListPeers(%s)=%s lacks %s which is connected and interested (%d subs, %d relays)",
								x.nd.name, t, n.Names(got), n.Name(p), len(nodes[j].subs[t]), len(nodes[j].relays[t]))
						}
					}
					for _, lp := range late {
						delete(gm, lp.ID())
					}
					for p := range gm {
						if !want[p] {
							fail(map[string]string{"kind": "uninterested_peer_listed"}, "%s.ListPeers(%s)=%s lists %s which is not (connected and interested)", x.nd.name, t, n.Names(got), n.Name(p))
						}
					}
					if h := x.handles[t]; h != nil {
						tl := h.ListPeers()
						if len(tl) != len(got) {
							fail(map[string]string{"kind": "topic_listpeers_differs"}, "Topic.ListPeers and PubSub.ListPeers disagree for %s at %s", t, x.nd.name)
						}
					}
				}
				// GetTopics = topics with a live subscription
				wantT := map[string]bool{}
				for t, l := range x.subs {
					if len(l) > 0 {
						wantT[t] = true
					}
				}
				gotT := x.nd.ps.GetTopics()
				sort.Strings(gotT)
				var wl []string
				for t := range wantT {
					wl = append(wl, t)
				}
				sort.Strings(wl)
				if strings.Join(gotT, ",") != strings.Join(wl, ",") {
					fail(map[string]string{"kind": "gettopics"}, "%s.GetTopics()=%v, live subscriptions on %v", x.nd.name, gotT, wl)
				}
				// observer: last announcement per topic = current interest; never a subscribe for a topic without interest
				last := map[string]bool{}
				for _, wr := range x.obs.Wire() {
					for _, s := range wr.RPC.Subscriptions {
						last[s.GetTopicid()] = s.GetSubscribe()
						if s.GetSubscribe() && !x.everInt[s.GetTopicid()] {
							fail(map[string]string{"kind": "announced_without_interest"}, "%s announced a subscription to %s which it never had an interest in", x.nd.name, s.GetTopicid())
						}
					}
				}
				if lp := late[x]; lp != nil {
					told := map[string]bool{}
					for _, wr := range lp.Wire() {
						for _, s := range wr.RPC.Subscriptions {
							told[s.GetTopicid()] = s.GetSubscribe()
						}
					}
					for _, t := range topics {
						if told[t] != x.interest(t) {
							fail(map[string]string{"kind": "late_comer_told_wrong_interest"}, "%s told a peer that connected after the history subscribe=%v for %s, its interest is %v (subs=%d relays=%d fanoutOnly=%v)",
								x.nd.name, told[t], t, x.interest(t), len(x.subs[t]), len(x.relays[t]), x.fanout[t])
						}
					}
					c.Count("late_comers", 1)
				}
				for _, t := range topics {
					if last[t] != x.interest(t) {
						fail(map[string]string{"kind": "observer_last_announcement"}, "%s: last announcement for %s seen by its observer is subscribe=%v but its interest is %v (subs=%d relays=%d fanoutOnly=%v)",
							x.nd.name, t, last[t], x.interest(t), len(x.subs[t]), len(x.relays[t]), x.fanout[t])
					}
				}
			}
			for _, x := range nodes {
				for _, e := range x.nd.tr.Events() {
					if e.Kind == "drop" && e.RPC != nil && len(e.RPC.Subscriptions) > 0 {
						c.Count("announcements_dropped_and_retried", 1)
					}
				}
			}
			nRes := 0
			for _, v := range resets {
				nRes += v
			}
			kinds := map[string]bool{}
			for _, h := range hist {
				f := strings.Fields(h)
				if len(f) > 1 {
					k := f[1]
					if i := strings.Index(k, "("); i > 0 {
						k = k[:i]
					}
					if j := strings.Index(k, "."); j >= 0 {
						k = k[j+1:]
					}
					kinds[k] = true
				}
			}
			var ks []string
			for k := range kinds {
				ks = append(ks, k)
			}
			sort.Strings(ks)
			c.Count("ops", len(hist))
			c.Sig(N, smallQ, nRes > 0, strings.Join(ks, ","), len(edges))
			c.Nontrivial(len(ks) >= 4)
			c.State(N, len(edges), nRes)
			if c.Idx < 3 {
				h := hist
				if len(h) > 30 {
					h = h[:30]
				}
				c.Sample(map[string]any{"nodes": N, "small_queues": smallQ, "resets": nRes, "history": h})
			}
		})
	})
}

// C05.respawn — the narrow sequence behind one thorough-tier violation: a
// node's outbound stream to a neighbour is reset again and again while the
// connection stays up; every time the writer is respawned and greets with the
// node's subscriptions, while the neighbour is still tearing the old inbound
// stream down. After each reset and a quiet spell the neighbour must list the
// node for exactly the topics it is subscribed to.
func TestVerifC05Respawn(t *testing.T) {
	vRun(t, "C05.respawn", vCount(500, 4000), func(c *vCase) {
		c.Bubble(func() {
			n := newVNet(c)
			var nodes []*vNode
			defer func() {
				for _, x := range nodes {
					x.cancel()
				}
				n.Close()
				vSettle(0)
			}()
			for i := 0; i < 2; i++ {
				router := []string{"gossipsub", "floodsub", "randomsub"}[c.Intn(3)]
				nd, err := n.NewNode(fmt.Sprintf("n%d", i), router)
				if err != nil {
					panic(err)
				}
				nodes = append(nodes, nd)
			}
			a, b := nodes[0], nodes[1]
			topics := []string{"a", "b", "c"}
			subs := map[string]*Subscription{}
			for _, tn := range topics {
				if c.Chance(0.6) {
					s, err := b.ps.Subscribe(tn)
					if err != nil {
						panic(err)
					}
					subs[tn] = s
				}
			}
			n.Connect(a.ID(), b.ID())
			vSettle(500 * time.Millisecond)
			resetOut := func() bool {
				for _, conn := range b.h.Host.Network().ConnsToPeer(a.ID()) {
					for _, s := range conn.GetStreams() {
						if s.Stat().Direction == network.DirOutbound && strings.Contains(string(s.Protocol()), "sub/") {
							s.Reset()
							return true
						}
					}
				}
				return false
			}
			resets, inWindow, reconnects := 0, 0, 0
			for k, K := 0, c.Range(5, 25); k < K && !c.Violated(); k++ {
				if c.Chance(0.3) {
					// interest changes around the reset
					tn := topics[c.Intn(len(topics))]
					if s := subs[tn]; s != nil {
						s.Cancel()
						delete(subs, tn)
					} else if s, err := b.ps.Subscribe(tn); err == nil {
						subs[tn] = s
					}
					vSettle(time.Duration(c.Range(0, 3)) * time.Millisecond)
				}
				if c.Chance(0.3) {
					// the whole connection goes away and comes back: a writer that dies with its connection is not a
					// respawn and leaves the respawn budget alone
					n.Disconnect(a.ID(), b.ID())
					vSettle(time.Duration(c.Range(1, 3000)) * time.Millisecond)
					n.Connect(a.ID(), b.ID())
					vSettle(2 * time.Second)
					reconnects++
				}
				if !resetOut() {
					vSettle(time.Second)
					continue
				}
				resets++
				inWindow++
				// the library stops respawning a writer that died more than four times inside the back-off's ten-minute
				// memory (by design: the neighbour then stays unheard until it reconnects); the monitor stays below that
				if inWindow >= 3 || c.Chance(0.2) {
					vSettle(11 * time.Minute)
					inWindow = 0
				} else {
					vSettle(12 * time.Second)
				}
				for _, tn := range topics {
					listed := false
					for _, p := range a.ps.ListPeers(tn) {
						if p == b.ID() {
							listed = true
						}
					}
					if listed != (subs[tn] != nil) {
						c.Violatef(map[string]string{"kind": "respawn_interest_lost", "listed": fmt.Sprint(listed)},
							"after reset %d of n1's outbound stream (routers %T / %T): n0.ListPeers(%s) lists n1 = %v, n1 subscribed = %v", resets, a.ps.rt, b.ps.rt, tn, listed, subs[tn] != nil)
						return
					}
				}
			}
			c.Sig(fmt.Sprintf("%T%T", a.ps.rt, b.ps.rt), len(subs), resets/5)
			c.Nontrivial(resets >= 3)
			c.Count("outbound_resets", resets)
			c.Count("reconnects", reconnects)
			c.State(len(subs), resets/5, reconnects/3)
			if c.Idx < 2 {
				c.Sample(map[string]any{"routers": fmt.Sprintf("%T / %T", a.ps.rt, b.ps.rt), "subscribed_topics": len(subs), "resets": resets})
			}
		})
	})
}
