//go:build verif

package pubsub

// C06 — every forwarded copy goes to exactly the peers the router rules
// require. One node per router type, 5..14 puppets with PRNG attributes, a
// PRNG history, then a snapshot inside the event loop strictly between two
// heartbeats, one injected message, and the wire of every puppet is compared
// with the recipient set computed from the snapshot and the property text.

import (
	"context"
	"fmt"
	"math"
	"sort"
	"strings"
	"testing"
	"time"

	pb "github.com/libp2p/go-libp2p-pubsub/pb"
	"github.com/libp2p/go-libp2p/core/peer"
	"github.com/libp2p/go-libp2p/core/protocol"
)

type c06Pup struct {
	p        *vPuppet
	proto    protocol.ID
	attached bool
	subbed   map[string]bool
	direct   bool
}

func c06Params(c *vCase) GossipSubParams {
	p := vFastParams()
	p.D = c.Range(2, 4)
	p.Dlo = p.D - 1
	p.Dhi = p.D + c.Range(1, 3)
	p.Dscore = 1
	p.Dout = 0
	if p.Dlo >= 2 && p.D >= 4 {
		p.Dout = 1
	}
	p.Dlazy = 2
	p.FanoutTTL = time.Duration(c.Range(3, 10)) * time.Second
	p.PruneBackoff = 4 * time.Second
	p.UnsubscribeBackoff = 2 * time.Second
	p.IDontWantMessageTTL = c.Range(1, 3)
	p.MaxIDontWantLength = 10
	return p
}

func TestVerifC06Route(t *testing.T) {
	vRun(t, "C06.route", vCount(300, 30000), func(c *vCase) {
		c.Bubble(func() {
			r := vNewRig(c)
			defer r.Close()
			router := []string{"gossipsub", "gossipsub", "gossipsub", "gossipsub", "floodsub", "randomsub"}[c.Intn(6)]
			topics := []string{"t", "u"}
			nP := c.Range(5, 14)
			app := newVScores()
			var pups []*c06Pup
			protosFor := func() protocol.ID {
				switch router {
				case "floodsub":
					return FloodSubID
				case "randomsub":
					if c.Chance(0.3) {
						return FloodSubID
					}
					return RandomSubID
				}
				if c.Chance(0.2) {
					return FloodSubID
				}
				return vAllGossipProtos[c.Intn(4)]
			}
			for i := 0; i < nP; i++ {
				pr := protosFor()
				pups = append(pups, &c06Pup{p: r.NewPuppet(fmt.Sprintf("p%d", i), pr, ""), proto: pr, subbed: map[string]bool{}})
			}
			byID := map[peer.ID]*c06Pup{}
			for _, p := range pups {
				byID[p.p.ID()] = p
			}
			opts := []Option{WithMessageIdFn(func(m *pb.Message) string { return string(m.Data) })}
			scoring, flood := false, false
			var params GossipSubParams
			pubTh, gossipTh, grayTh := 0.0, 0.0, 0.0
			if router == "gossipsub" {
				params = c06Params(c)
				opts = append(opts, WithGossipSubParams(params))
				scoring = c.Chance(0.6)
				flood = c.Chance(0.3)
				opts = append(opts, WithFloodPublish(flood))
				if scoring {
					gossipTh, pubTh, grayTh = -5, -10, -1000
					opts = append(opts, WithPeerScore(&PeerScoreParams{
						AppSpecificScore: app.Get, AppSpecificWeight: 1,
						DecayInterval: time.Second, DecayToZero: 0.01, Topics: map[string]*TopicScoreParams{},
					}, &PeerScoreThresholds{GossipThreshold: gossipTh, PublishThreshold: pubTh, GraylistThreshold: grayTh, AcceptPXThreshold: 100, OpportunisticGraftThreshold: 1}))
				}
				if c.Chance(0.3) {
					var dps []peer.AddrInfo
					for _, p := range pups {
						if c.Chance(0.2) {
							p.direct = true
							dps = append(dps, peer.AddrInfo{ID: p.p.ID()})
						}
					}
					if len(dps) > 0 {
						opts = append(opts, WithDirectPeers(dps), WithDirectConnectTicks(1000))
					}
				}
			}
			// the size estimate a randomsub node is given decides how many peers it picks: from below the fixed minimum
			// up to more than it will ever have
			rsSize := []int{10, 10, 40, 100, 400}[c.Intn(5)]
			r.n.rsSize = rsSize
			if err := r.Start(router, opts...); err != nil {
				c.Inconclusive("node: %v", err)
				return
			}
			nd := r.nd
			me := nd.ID()
			var hist []string
			note := func(f string, a ...any) { hist = append(hist, fmt.Sprintf(f, a...)) }
			mySubs := map[string]*Subscription{}
			myTopics := map[string]*Topic{}
			topicOf := func(tn string) *Topic {
				if t := myTopics[tn]; t != nil {
					return t
				}
				t, err := nd.ps.Join(tn)
				if err != nil {
					panic(err)
				}
				myTopics[tn] = t
				return t
			}
			attach := func(p *c06Pup) {
				if p.attached {
					return
				}
				if err := r.Attach(p.p, c.Chance(0.5)); err != nil {
					return
				}
				p.attached = true
				p.subbed = map[string]bool{}
			}
			sendTo := func(p *c06Pup, rpc *pb.RPC) {
				if p.attached {
					p.p.Send(me, rpc)
				}
			}
			// initial population
			for _, p := range pups {
				if c.Chance(0.85) {
					attach(p)
					for _, tn := range topics {
						if c.Chance(0.75) {
							sendTo(p, vSubRPC(true, tn))
							p.subbed[tn] = true
						}
					}
				}
				if scoring {
					app.Set(p.p.ID(), []float64{0, 0, 5, -1, -7, -10, -10.5, -50}[c.Intn(8)])
				}
			}
			if c.Chance(0.7) {
				s, err := topicOf("t").Subscribe()
				if err == nil {
					mySubs["t"] = s
				}
			}
			vSettle(time.Duration(c.Range(200, 2500)) * time.Millisecond)
			fillerN := 0
			nOps := c.Range(0, 25)
			for i := 0; i < nOps; i++ {
				p := pups[c.Intn(nP)]
				tn := topics[c.Intn(2)]
				if c.Chance(0.7) {
					tn = "t"
				}
				switch c.Intn(12) {
				case 0:
					attach(p)
					note("attach(%s)", p.p.name)
				case 1:
					if p.attached && c.Chance(0.4) {
						r.n.Disconnect(me, p.p.ID())
						p.attached = false
						p.p.ForgetStreams()
						note("disconnect(%s)", p.p.name)
					}
				case 2:
					b := !p.subbed[tn]
					sendTo(p, vSubRPC(b, tn))
					p.subbed[tn] = b
					note("sub(%s,%s,%v)", p.p.name, tn, b)
				case 3:
					sendTo(p, vGraftRPC(tn))
					note("graft(%s,%s)", p.p.name, tn)
				case 4:
					sendTo(p, vPruneRPC(uint64(c.Range(0, 3)), tn))
					note("prune(%s,%s)", p.p.name, tn)
				case 5:
					ids := []string{"final"}
					if c.Chance(0.5) {
						ids = append(ids, fmt.Sprintf("filler-%d", fillerN+1))
					}
					sendTo(p, &pb.RPC{Control: &pb.ControlMessage{Idontwant: []*pb.ControlIDontWant{{MessageIDs: ids}}}})
					note("idontwant(%s,%v)", p.p.name, ids)
				case 6:
					if scoring {
						app.Set(p.p.ID(), []float64{0, 3, -1, -5, -9.99, -10, -10.01, -20}[c.Intn(8)])
						note("score(%s,%v)", p.p.name, app.Get(p.p.ID()))
					}
				case 7:
					if s := mySubs[tn]; s != nil {
						s.Cancel()
						delete(mySubs, tn)
						note("leave(%s)", tn)
					} else if s, err := topicOf(tn).Subscribe(); err == nil {
						mySubs[tn] = s
						note("join(%s)", tn)
					}
				case 8:
					fillerN++
					topicOf(tn).Publish(context.Background(), []byte(fmt.Sprintf("filler-%d", fillerN)))
					note("publish(%s,filler-%d)", tn, fillerN)
				case 9:
					if router == "gossipsub" && c.Chance(0.5) {
						if p.direct {
							nd.ps.RemoveDirectPeer(p.p.ID())
						} else {
							nd.ps.AddDirectPeer(peer.AddrInfo{ID: p.p.ID()})
						}
						p.direct = !p.direct
						note("direct(%s,%v)", p.p.name, p.direct)
					}
				default:
					d := time.Duration(c.Range(100, 2600)) * time.Millisecond
					vSettle(d)
					note("+%v", d)
				}
				vSettle(10 * time.Millisecond)
			}
			// ---- sustained fanout publishing: while the node keeps publishing to a topic it has not joined, the fanout
			// set must survive every heartbeat (its time-to-live counts from the last publication, not from its creation)
			// and keep the members that stay eligible. No other operation runs meanwhile.
			if router == "gossipsub" && mySubs["t"] == nil && c.Chance(0.35) {
				fillerN++
				topicOf("t").Publish(context.Background(), []byte(fmt.Sprintf("filler-%d", fillerN)))
				vSettle(10 * time.Millisecond)
				F0 := nd.Snap().Fanout["t"]
				if len(F0) > 0 {
					rounds := int(params.FanoutTTL/r.hb) + c.Range(2, 5)
					note("sustained fanout publishing for %d heartbeats (FanoutTTL %v)", rounds, params.FanoutTTL)
					for k := 0; k < rounds; k++ {
						r.ToNextGap(time.Duration(c.Range(50, 400)) * time.Millisecond)
						Sk := nd.Snap()
						for p := range F0 {
							_, d := Sk.Direct[p]
							_, inT := Sk.Topics["t"][p]
							_, conn := Sk.Peers[p]
							sc := 0.0
							if scoring {
								sc = app.Get(p)
							}
							if _, ok := Sk.Fanout["t"][p]; !ok && inT && conn && !d && sc >= pubTh {
								c.Violatef(map[string]string{"kind": "fanout_unstable", "when": "sustained_publishing"},
									"fanout member %s was dropped after %d heartbeats of continuous publishing (FanoutTTL %v) although still eligible; fanout now %v\n history=%v",
									r.Name(p), k+1, params.FanoutTTL, vPeerNames(r.n, Sk.Fanout["t"]), hist)
								return
							}
						}
						fillerN++
						topicOf("t").Publish(context.Background(), []byte(fmt.Sprintf("filler-%d", fillerN)))
						vSettle(10 * time.Millisecond)
					}
					c.Count("sustained_fanout_rounds", rounds)
				}
			}
			// ---- the injection, strictly between two heartbeats
			r.ToNextGap(time.Duration(c.Range(50, 600)) * time.Millisecond)
			tn := "t"
			var att []*c06Pup
			for _, p := range pups {
				if p.attached {
					att = append(att, p)
				}
			}
			mode := []string{"local", "local", "localonly", "remote", "remote"}[c.Intn(5)]
			if mode == "remote" && (len(att) < 2 || mySubs[tn] == nil) {
				mode = "local"
			}
			if scoring && c.Chance(0.4) {
				// a direct peer is exempt from the publish threshold: put one below it
				for _, p := range att {
					if p.direct {
						app.Set(p.p.ID(), pubTh-float64(c.Range(1, 3)))
						note("score(%s) below the publish threshold (direct peer)", p.p.name)
						break
					}
				}
			}
			S := nd.Snap()
			marks := make([]int, len(pups))
			for i, p := range pups {
				marks[i] = p.p.WireLen()
			}
			data := []byte("final")
			var X, Y peer.ID
			var injected *pb.Message
			// own publications also go through the batch API (gossipsub only): same recipients
			viaBatch := router == "gossipsub" && c.Chance(0.3)
			publish := func(po ...PubOpt) error {
				if !viaBatch {
					return topicOf(tn).Publish(context.Background(), data, po...)
				}
				var mb MessageBatch
				if err := topicOf(tn).AddToBatch(context.Background(), &mb, data, po...); err != nil {
					return err
				}
				return nd.ps.PublishBatch(&mb)
			}
			switch mode {
			case "local":
				if err := publish(); err != nil {
					c.Inconclusive("publish: %v", err)
					return
				}
			case "localonly":
				if err := publish(WithLocalPublication(true)); err != nil {
					c.Inconclusive("publish: %v", err)
					return
				}
			case "remote":
				x := att[c.Intn(len(att))]
				y := att[c.Intn(len(att))]
				for y == x {
					y = att[c.Intn(len(att))]
				}
				if scoring && app.Get(x.p.ID()) < 0 {
					app.Set(x.p.ID(), 0)
					S = nd.Snap()
				}
				X, Y = x.p.ID(), y.p.ID()
				injected = vSignedMsg(y.p.key, tn, vSeqno(7), data)
				if c.Chance(0.2) {
					// unknown field must survive forwarding; it is covered by the signature
					injected.XXX_unrecognized = []byte{0x7a, 2, 0xaa, 0xbb}
					vSign(y.p.key, injected)
				}
				x.p.Send(me, vMsgRPC(injected))
			}
			vSettle(80 * time.Millisecond)
			S2 := nd.Snap()
			if S2.Ticks != S.Ticks {
				c.Inconclusive("a heartbeat ran between snapshot and observation")
				return
			}
			// ---- observed recipients
			R := map[peer.ID][]*pb.Message{}
			for i, p := range pups {
				for _, w := range p.p.WireSince(marks[i]) {
					for _, m := range w.RPC.Publish {
						if string(m.Data) == "final" {
							R[p.p.ID()] = append(R[p.p.ID()], m)
						}
					}
				}
			}
			// ---- expected sets from S and the statement
			inTopic := S.Topics[tn]
			if inTopic == nil {
				inTopic = map[peer.ID]struct{}{}
			}
			hasStream := func(p peer.ID) bool {
				if router == "gossipsub" {
					_, ok := S.Peers[p]
					return ok
				}
				_, ok := S.QPeers[p]
				return ok
			}
			score := func(p peer.ID) float64 {
				if !scoring {
					return 0
				}
				return app.Get(p)
			}
			unwanted := func(p peer.ID) bool {
				_, ok := S.Unwanted[p][computeChecksum("final")]
				return ok
			}
			must := map[peer.ID]string{}    // peer -> reason
			allowed := map[peer.ID]string{} // superset
			classes := map[string]int{}
			exclude := map[peer.ID]bool{X: true, Y: true}
			add := func(m map[peer.ID]string, p peer.ID, why string) {
				if !exclude[p] {
					m[p] = why
				}
			}
			fail := func(cause map[string]string, format string, args ...any) {
				cause["router"] = router
				c.Violatef(cause, "router=%s mode=%s scoring=%v flood=%v: %s\n history=%v\n topic=%v mesh=%v fanout=%v direct=%v scores=%s",
					router, mode, scoring, flood, fmt.Sprintf(format, args...), hist, vPeerNames(r.n, inTopic), vPeerNames(r.n, S.Mesh[tn]),
					vPeerNames(r.n, S.Fanout[tn]), vPeerNames(r.n, S.Direct), c06Scores(r.n, app.Copy()))
			}
			accepted := mode != "remote" || true
			switch {
			case mode == "localonly":
				// nobody
			case router == "floodsub":
				for p := range inTopic {
					add(must, p, "floodsub:topic")
					add(allowed, p, "floodsub:topic")
				}
			case router == "randomsub":
				var rs []peer.ID
				for p := range inTopic {
					if exclude[p] {
						continue
					}
					if byID[p] != nil && byID[p].proto == FloodSubID {
						add(must, p, "randomsub:floodsub-peer")
						add(allowed, p, "randomsub:floodsub-peer")
					} else {
						rs = append(rs, p)
						add(allowed, p, "randomsub:random")
					}
				}
				if len(rs) <= RandomSubD {
					for _, p := range rs {
						add(must, p, "randomsub:all")
					}
				} else {
					target := RandomSubD
					if s := int(math.Ceil(math.Sqrt(float64(rsSize)))); s > target {
						target = s
					}
					if target > len(rs) {
						target = len(rs)
						classes["randomsub_fewer_peers_than_target"]++
					}
					got := 0
					for _, p := range rs {
						if len(R[p]) > 0 {
							got++
						}
					}
					nStream := 0
					for _, p := range rs {
						if hasStream(p) {
							nStream++
						}
					}
					if got > target || (nStream == len(rs) && got != target) {
						fail(map[string]string{"kind": "randomsub_count"}, "randomsub sent to %d of %d randomsub peers, want %d", got, len(rs), target)
					}
					classes["randomsub_sample"]++
				}
			case flood && mode == "local":
				for p := range inTopic {
					_, d := S.Direct[p]
					if d || score(p) >= pubTh {
						add(must, p, "floodpublish")
						add(allowed, p, "floodpublish")
						classes["flood"]++
					} else {
						classes["below_publish_threshold"]++
					}
				}
			default: // gossipsub, normal routing
				for p := range S.Direct {
					if _, ok := inTopic[p]; ok {
						add(must, p, "direct")
						add(allowed, p, "direct")
						classes["direct"]++
					}
				}
				for p := range inTopic {
					if !GossipSubDefaultFeatures(GossipSubFeatureMesh, S.Peers[p]) {
						if score(p) >= pubTh {
							add(must, p, "floodsub-peer")
							add(allowed, p, "floodsub-peer")
							classes["floodsub"]++
						} else {
							classes["below_publish_threshold"]++
						}
					}
				}
				if mesh, joined := S.Mesh[tn]; joined {
					for p := range mesh {
						if unwanted(p) {
							classes["idontwant_excluded"]++
							continue
						}
						add(must, p, "mesh")
						add(allowed, p, "mesh")
						classes["mesh"]++
					}
				} else {
					// fanout: the set the router uses is S2.Fanout (created by this publish if S had none)
					F := S2.Fanout[tn]
					old := S.Fanout[tn]
					eligible := map[peer.ID]bool{}
					for p := range inTopic {
						_, d := S.Direct[p]
						if GossipSubDefaultFeatures(GossipSubFeatureMesh, S.Peers[p]) && !d && score(p) >= pubTh {
							eligible[p] = true
						}
					}
					if len(old) > 0 {
						// stability: members are kept while eligible and the topic keeps being published to
						for p := range old {
							if _, ok := F[p]; !ok && eligible[p] {
								fail(map[string]string{"kind": "fanout_unstable"}, "fanout member %s dropped by a publish although still eligible", r.Name(p))
							}
						}
						classes["fanout_reused"]++
					} else {
						if len(F) > params.D {
							fail(map[string]string{"kind": "fanout_size"}, "fanout has %d members > D=%d", len(F), params.D)
						}
						if len(F) == 0 && len(eligible) > 0 {
							fail(map[string]string{"kind": "fanout_empty"}, "no fanout peer chosen although %d are eligible", len(eligible))
						}
						for p := range F {
							if !eligible[p] {
								fail(map[string]string{"kind": "fanout_ineligible"}, "fanout member %s is not eligible (score %v, in topic %v)", r.Name(p), score(p), inTopic[p])
							}
						}
						classes["fanout_new"]++
					}
					for p := range F {
						if unwanted(p) {
							classes["idontwant_excluded"]++
							continue
						}
						add(must, p, "fanout")
						add(allowed, p, "fanout")
						classes["fanout"]++
					}
				}
			}
			_ = accepted
			// ---- compare
			for p, why := range must {
				if !hasStream(p) {
					continue
				}
				if _, ok := inTopic[p]; !ok {
					continue // judged below as "sent to a peer not in the topic" if it received the message
				}
				if len(R[p]) == 0 {
					fail(map[string]string{"kind": "missing_recipient", "class": why}, "%s (%s, proto %s, score %v) did not receive the message", r.Name(p), why, S.Peers[p], score(p))
				}
			}
			for p, ms := range R {
				if len(ms) > 1 {
					fail(map[string]string{"kind": "duplicate_copy"}, "%s received %d copies", r.Name(p), len(ms))
				}
				why := ""
				switch {
				case p == X:
					why = "source"
				case p == Y:
					why = "author"
				case mode == "localonly":
					why = "local_only_publication"
				}
				if why != "" {
					fail(map[string]string{"kind": "forbidden_recipient", "class": why}, "%s received the message (%s)", r.Name(p), why)
					continue
				}
				if _, ok := inTopic[p]; !ok {
					// tag the cause (DESIGN.md S15)
					cause := "unknown"
					if _, inMesh := S.Mesh[tn][p]; inMesh {
						cause = "mesh_member_not_in_topic"
					} else if _, inF := S.Fanout[tn][p]; inF {
						cause = "fanout_member_not_in_topic"
					}
					fail(map[string]string{"kind": "sent_to_non_topic_peer", "class": cause}, "%s received the message but is not known to be in the topic (%s)", r.Name(p), cause)
					continue
				}
				if _, ok := allowed[p]; !ok {
					fail(map[string]string{"kind": "unexpected_recipient"}, "%s (proto %s, score %v, unwanted=%v) received the message but no rule selects it", r.Name(p), S.Peers[p], score(p), unwanted(p))
				}
			}
			// ---- copies are field-for-field the accepted message
			var ref *pb.Message
			for p, ms := range R {
				for _, m := range ms {
					if injected != nil {
						if !vSameMsg(m, injected) {
							fail(map[string]string{"kind": "copy_altered"}, "copy at %s differs from the injected message", r.Name(p))
						}
					} else {
						if ref == nil {
							ref = m
						} else if !vSameMsg(m, ref) {
							fail(map[string]string{"kind": "copy_altered"}, "copies of a local publication differ between peers")
						}
						if err := vVerifyMsg(m); err != nil {
							fail(map[string]string{"kind": "copy_unverifiable"}, "copy at %s does not verify: %v", r.Name(p), err)
						}
					}
				}
			}
			// local delivery of an accepted message
			c.Count("recipients", len(R))
			c.Count("cases_"+mode, 1)
			for k, v := range classes {
				c.Count("class:"+k, v)
			}
			var ks []string
			for k, v := range classes {
				if v > 0 {
					ks = append(ks, k)
				}
			}
			sort.Strings(ks)
			c.Sig(router, mode, scoring, flood, strings.Join(ks, ","), len(must) > 0, len(R))
			c.Nontrivial(len(ks) >= 2 || (router != "gossipsub" && len(R) > 0))
			c.State(router, mode, len(S.Mesh[tn]), len(S.Fanout[tn]), len(inTopic), len(S.Direct), len(R))
			if c.Idx < 3 {
				c.Sample(map[string]any{"router": router, "mode": mode, "scoring": scoring, "flood_publish": flood, "puppets": nP, "history": hist,
					"recipients": vPeerNames(r.n, vKeys(R)), "classes": classes})
			}
		})
	})
}

func vKeys[V any](m map[peer.ID]V) map[peer.ID]struct{} {
	out := map[peer.ID]struct{}{}
	for k := range m {
		out[k] = struct{}{}
	}
	return out
}

func c06Scores(n *vNet, app map[peer.ID]float64) string {
	var parts []string
	for p, v := range app {
		if v != 0 {
			parts = append(parts, fmt.Sprintf("%s=%v", n.Name(p), v))
		}
	}
	sort.Strings(parts)
	return strings.Join(parts, " ")
}
