//go:build verif

package pubsub

// vRig: one real node plus raw-wire puppets (the shape most single-node
// monitors use).

import (
	"bytes"
	"fmt"
	"sort"
	"time"

	pb "github.com/libp2p/go-libp2p-pubsub/pb"
	"github.com/libp2p/go-libp2p/core/crypto"
	"github.com/libp2p/go-libp2p/core/peer"
	"github.com/libp2p/go-libp2p/core/protocol"
)

type vRig struct {
	c    *vCase
	n    *vNet
	nd   *vNode
	pups []*vPuppet
	born time.Time
	hb   time.Duration
	hb0  time.Duration
}

// vNewRigHosts prepares the network and the puppets' identities first (so
// that options such as WithDirectPeers can name them), then the node.
func vNewRig(c *vCase) *vRig {
	return &vRig{c: c, n: newVNet(c), hb: time.Second, hb0: 100 * time.Millisecond}
}

func (r *vRig) Start(router string, opts ...Option) error {
	nd, err := r.n.NewNode("node", router, opts...)
	if err != nil {
		return err
	}
	r.nd = nd
	r.born = time.Now()
	if nd.gs != nil {
		r.hb = nd.gs.params.HeartbeatInterval
		r.hb0 = nd.gs.params.HeartbeatInitialDelay
	}
	return nil
}

func (r *vRig) Close() {
	if r.nd != nil {
		r.nd.cancel()
	}
	r.n.Close()
	vSettle(0)
}

// NewPuppet creates a puppet without connecting it.
func (r *vRig) NewPuppet(name string, proto protocol.ID, ip string) *vPuppet {
	p := r.n.NewPuppet(name, ip, proto)
	r.pups = append(r.pups, p)
	return p
}

// Attach connects puppet and node (direction as seen from the node) and opens
// the puppet's own stream.
func (r *vRig) Attach(p *vPuppet, nodeDials bool) error {
	var err error
	if nodeDials {
		err = r.n.Connect(r.nd.ID(), p.ID())
	} else {
		err = r.n.Connect(p.ID(), r.nd.ID())
	}
	if err != nil {
		return err
	}
	vSettle(20 * time.Millisecond)
	_, err = p.Open(r.nd.ID())
	vSettle(20 * time.Millisecond)
	return err
}

// ToNextGap sleeps until offset after the next heartbeat tick (0 < offset < interval),
// so that the caller acts strictly between ticks.
func (r *vRig) ToNextGap(offset time.Duration) {
	now := time.Since(r.born)
	var next time.Duration
	if now < r.hb0 {
		next = r.hb0
	} else {
		k := (now-r.hb0)/r.hb + 1
		next = r.hb0 + k*r.hb
	}
	time.Sleep(next - now + offset)
	vSettle(0)
}

// HBIndex returns the number of heartbeats that have run at time t.
func (r *vRig) HBIndex(t time.Time) int {
	d := t.Sub(r.born)
	if d < r.hb0 {
		return 0
	}
	return int((d-r.hb0)/r.hb) + 1
}

func (r *vRig) Name(p peer.ID) string { return r.n.Name(p) }

// vVerifyMsg is the harness's own implementation of the signature rule.
func vVerifyMsg(m *pb.Message) error {
	if len(m.Signature) == 0 {
		return fmt.Errorf("no signature")
	}
	pid, err := peer.IDFromBytes(m.From)
	if err != nil {
		return fmt.Errorf("bad from: %w", err)
	}
	var pk crypto.PubKey
	if m.Key == nil {
		pk, err = pid.ExtractPublicKey()
		if err != nil || pk == nil {
			return fmt.Errorf("no key and none extractable")
		}
	} else {
		pk, err = crypto.UnmarshalPublicKey(m.Key)
		if err != nil {
			return fmt.Errorf("bad key: %w", err)
		}
		if !pid.MatchesPublicKey(pk) {
			return fmt.Errorf("key does not match author")
		}
	}
	x := *m
	x.Signature, x.Key = nil, nil
	b, err := x.Marshal()
	if err != nil {
		return err
	}
	ok, err := pk.Verify(append([]byte("libp2p-pubsub:"), b...), m.Signature)
	if err != nil {
		return err
	}
	if !ok {
		return fmt.Errorf("signature does not verify")
	}
	return nil
}

func vMsgBytes(m *pb.Message) []byte {
	b, err := m.Marshal()
	if err != nil {
		panic(err)
	}
	return b
}

func vSameMsg(a, b *pb.Message) bool { return bytes.Equal(vMsgBytes(a), vMsgBytes(b)) }

func vPeerNames(n *vNet, m map[peer.ID]struct{}) []string {
	out := make([]string, 0, len(m))
	for p := range m {
		out = append(out, n.Name(p))
	}
	sort.Strings(out)
	return out
}

// vRecipients lists who received a message with the given data since wire index marks.
func vRecipients(pups []*vPuppet, marks []int, data []byte) (map[peer.ID][]*pb.Message, map[peer.ID]int) {
	got := map[peer.ID][]*pb.Message{}
	cnt := map[peer.ID]int{}
	for i, p := range pups {
		for _, w := range p.WireSince(marks[i]) {
			for _, m := range w.RPC.Publish {
				if bytes.Equal(m.Data, data) {
					got[p.ID()] = append(got[p.ID()], m)
					cnt[p.ID()]++
				}
			}
		}
	}
	return got, cnt
}

func vMarks(pups []*vPuppet) []int {
	out := make([]int, len(pups))
	for i, p := range pups {
		out[i] = p.WireLen()
	}
	return out
}
