//go:build verif

package pubsub

// C09 — score thresholds gate what a peer may send and receive. The score is
// the application-specific score, i.e. a harness-controlled number placed on
// every side of every threshold including equality; each puppet runs a probe
// set (payload, IHAVE, IWANT, GRAFT, PRUNE+PX) and the oracle is written from
// the statement.

import (
	"context"
	"fmt"
	"sort"
	"strings"
	"testing"
	"time"

	pb "github.com/libp2p/go-libp2p-pubsub/pb"
	"github.com/libp2p/go-libp2p/core/crypto"
	"github.com/libp2p/go-libp2p/core/peer"
	"github.com/libp2p/go-libp2p/core/record"
	ma "github.com/multiformats/go-multiaddr"
)

func c09Record(c *vCase, n *vNet) (peer.ID, crypto.PrivKey, []byte) {
	k := n.genKey(false)
	id, _ := peer.IDFromPrivateKey(k)
	a, _ := ma.NewMultiaddr(fmt.Sprintf("/ip4/10.9.%d.%d/tcp/4242", c.Intn(250), c.Intn(250)))
	rec := &peer.PeerRecord{PeerID: id, Addrs: []ma.Multiaddr{a}, Seq: uint64(c.Range(1, 1000))}
	env, err := record.Seal(rec, k)
	if err != nil {
		panic(err)
	}
	b, err := env.Marshal()
	if err != nil {
		panic(err)
	}
	return id, k, b
}

func TestVerifC09Thresholds(t *testing.T) {
	vRun(t, "C09.thresholds", vCount(400, 30000), func(c *vCase) {
		c.Bubble(func() {
			gossipTh := []float64{0, -1, -5}[c.Intn(3)]
			publishTh := gossipTh - []float64{0, 1, 5}[c.Intn(3)]
			grayTh := publishTh - []float64{0, 1, 10}[c.Intn(3)]
			pxTh := []float64{0, 1, 5}[c.Intn(3)]
			th := PeerScoreThresholds{GossipThreshold: gossipTh, PublishThreshold: publishTh, GraylistThreshold: grayTh, AcceptPXThreshold: pxTh, OpportunisticGraftThreshold: 1}
			if err := th.validate(); err != nil {
				c.Inconclusive("thresholds: %v", err)
				return
			}
			params := vFastParams()
			params.D, params.Dlo, params.Dhi, params.Dscore, params.Dout = 8, 6, 16, 4, 2
			if c.Chance(0.4) {
				// small degrees: the mesh is at Dhi when the probes arrive, so a GRAFT is refused for more than one reason at once
				params.D, params.Dlo, params.Dhi, params.Dscore, params.Dout = 4, 3, 5, 2, 1
				// (the next heartbeat would cut a full mesh back to D: it is kept five seconds away so that the probes find it full)
				params.HeartbeatInterval = 5 * time.Second
			}
			params.Dlazy, params.GossipFactor = 32, 1
			params.HistoryLength, params.HistoryGossip = 200, 3
			params.PruneBackoff, params.UnsubscribeBackoff = 30*time.Second, 10*time.Second
			params.FanoutTTL = time.Minute
			params.MaxIHaveMessages = 100
			nP := c.Range(4, 10)
			if params.Dhi == 5 {
				nP = c.Range(10, 14) // enough well-scored peers to fill the mesh
			}
			w := gsNewWorld(c, gsConfig{params: params, th: th, scoring: true, nPups: nP, floodSub: 0,
				opts: []Option{WithPeerExchange(true), WithMessageIdFn(func(m *pb.Message) string { return string(m.Data) })}})
			if w == nil {
				return
			}
			defer w.Close()
			nd := w.nd
			// observer: a floodsub-protocol peer with a good score is forwarded every accepted message, whatever the mesh looks like
			obs := &gsPup{p: w.r.NewPuppet("obs", FloodSubID, ""), proto: FloodSubID, subbed: map[string]bool{}}
			w.pups = append(w.pups, obs)
			w.byID[obs.p.ID()] = obs
			pups := w.pups[:nP]
			pool := []float64{grayTh - 0.5, grayTh, grayTh + 0.25, publishTh - 0.5, publishTh, gossipTh - 0.25, gossipTh, gossipTh + 0.25,
				-0.25, 0, 0.5, 2, pxTh - 0.1, pxTh, pxTh + 1}
			w.app.Set(obs.p.ID(), 10)
			for _, gp := range pups {
				w.app.Set(gp.p.ID(), pool[c.Intn(len(pool))])
				if c.Chance(0.15) {
					nd.ps.AddDirectPeer(peer.AddrInfo{ID: gp.p.ID()})
					gp.direct = true
				}
			}
			for _, gp := range w.pups {
				if !w.attach(gp) {
					c.Inconclusive("attach failed")
					return
				}
				w.send(gp, vSubRPC(true, "t", "f"))
				gp.subbed["t"], gp.subbed["f"] = true, true
			}
			vSettle(10 * time.Millisecond)
			sub, err := w.handle("t").Subscribe()
			if err != nil {
				panic(err)
			}
			delivered := map[string]bool{}
			go func() {
				for {
					m, err := sub.Next(nd.ctx)
					if err != nil {
						return
					}
					w.c.mu.Lock()
					delivered[string(m.Data)] = true
					w.c.mu.Unlock()
				}
			}()
			gotLocal := func(data string) bool {
				w.c.mu.Lock()
				defer w.c.mu.Unlock()
				return delivered[data]
			}
			// a cached message for the IWANT probes
			w.handle("t").Publish(context.Background(), []byte("cached-0"))
			w.r.ToNextGap(50 * time.Millisecond) // one heartbeat: mesh built, negative peers stay out
			if params.Dhi == 5 && c.Chance(0.7) {
				// fill the mesh up to Dhi with well-scored peers before the probes
				for _, gp := range pups {
					if len(nd.Snap().Mesh["t"]) >= params.Dhi {
						break
					}
					if w.app.Get(gp.p.ID()) >= 0 && !gp.direct {
						w.send(gp, vGraftRPC("t"))
						vSettle(5 * time.Millisecond)
					}
				}
				w.note("mesh filled to %d", len(nd.Snap().Mesh["t"]))
			}
			classes := map[string]int{}
			sc := func(gp *gsPup) float64 { return w.app.Get(gp.p.ID()) }
			accept := func(gp *gsPup) bool { return gp.direct || sc(gp) >= grayTh }
			fail := func(cause map[string]string, gp *gsPup, format string, args ...any) {
				c.Violatef(cause, "thresholds gossip=%v publish=%v graylist=%v acceptPX=%v; peer %s score=%v direct=%v proto=%s: %s\n history=%v",
					gossipTh, publishTh, grayTh, pxTh, gp.p.name, sc(gp), gp.direct, gp.proto, fmt.Sprintf(format, args...), w.hist)
			}
			side := func(v, thr float64) string {
				switch {
				case v < thr:
					return "below"
				case v == thr:
					return "equal"
				}
				return "above"
			}
			ihaveSeen := map[peer.ID]int{} // IHAVE received over the whole case
			countIHave := func() {
				for _, gp := range pups {
					n := 0
					for _, wr := range gp.p.Wire() {
						n += len(wr.RPC.GetControl().GetIhave())
					}
					ihaveSeen[gp.p.ID()] = n
				}
			}
			type pxExpect struct {
				id    peer.ID
				kind  string // valid mismatch corrupt none
				from  *gsPup
				allow bool
			}
			var px []pxExpect
			probes := []string{"payload", "ihave", "iwant", "graft", "prunepx"}
			type job struct {
				gp *gsPup
				pr string
			}
			var jobs []job
			for _, gp := range pups {
				for _, pr := range probes {
					if c.Chance(0.8) {
						jobs = append(jobs, job{gp, pr})
					}
				}
			}
			c.R.Shuffle(len(jobs), func(i, j int) { jobs[i], jobs[j] = jobs[j], jobs[i] })
			seq := 100
			for _, jb := range jobs {
				if c.Violated() {
					break
				}
				gp := jb.gp
				// keep clear of heartbeat ticks
				if d := time.Since(w.r.born) - w.r.hb0; d%w.r.hb > 800*time.Millisecond {
					w.r.ToNextGap(30 * time.Millisecond)
				}
				mark := gp.p.WireLen()
				omark := obs.p.WireLen()
				w.note("%s(%s score=%v direct=%v)", jb.pr, gp.p.name, sc(gp), gp.direct)
				switch jb.pr {
				case "payload":
					seq++
					data := fmt.Sprintf("pl-%s-%d", gp.p.name, seq)
					w.send(gp, vMsgRPC(vSignedMsg(gp.p.key, "t", vSeqno(uint64(seq)), []byte(data))))
					vSettle(20 * time.Millisecond)
					fwd := false
					for _, wr := range obs.p.WireSince(omark) {
						for _, m := range wr.RPC.Publish {
							if string(m.Data) == data {
								fwd = true
							}
						}
					}
					loc := gotLocal(data)
					want := accept(gp)
					if loc != want || fwd != want {
						k := "payload_ignored"
						if !want {
							k = "graylisted_payload_accepted"
						}
						fail(map[string]string{"kind": k, "side": side(sc(gp), grayTh)}, gp, "payload delivered=%v forwarded=%v, want %v", loc, fwd, want)
					}
					classes["payload/"+side(sc(gp), grayTh)]++
				case "ihave":
					id := fmt.Sprintf("unseen-%s", gp.p.name)
					tt := "t"
					w.send(gp, &pb.RPC{Control: &pb.ControlMessage{Ihave: []*pb.ControlIHave{{TopicID: &tt, MessageIDs: []string{id}}}}})
					vSettle(20 * time.Millisecond)
					asked := false
					for _, wr := range gp.p.WireSince(mark) {
						for _, iw := range wr.RPC.GetControl().GetIwant() {
							for _, x := range iw.MessageIDs {
								if x == id {
									asked = true
								}
							}
						}
					}
					if gp.direct && sc(gp) < gossipTh {
						classes["ihave/direct_unspecified"]++
						break
					}
					want := accept(gp) && sc(gp) >= gossipTh
					if asked != want {
						k := "ihave_ignored"
						if !want {
							k = "ihave_below_threshold_followed"
						}
						fail(map[string]string{"kind": k, "side": side(sc(gp), gossipTh)}, gp, "IHAVE answered with IWANT=%v, want %v", asked, want)
					}
					classes["ihave/"+side(sc(gp), gossipTh)]++
				case "iwant":
					w.send(gp, &pb.RPC{Control: &pb.ControlMessage{Iwant: []*pb.ControlIWant{{MessageIDs: []string{"cached-0"}}}}})
					vSettle(20 * time.Millisecond)
					served := false
					for _, wr := range gp.p.WireSince(mark) {
						for _, m := range wr.RPC.Publish {
							if string(m.Data) == "cached-0" {
								served = true
							}
						}
					}
					if gp.direct && sc(gp) < gossipTh {
						classes["iwant/direct_unspecified"]++
						break
					}
					want := accept(gp) && sc(gp) >= gossipTh
					if served != want {
						k := "iwant_unanswered"
						if !want {
							k = "iwant_below_threshold_served"
						}
						fail(map[string]string{"kind": k, "side": side(sc(gp), gossipTh)}, gp, "IWANT served=%v, want %v", served, want)
					}
					classes["iwant/"+side(sc(gp), gossipTh)]++
				case "graft":
					if params.Dhi == 5 && sc(gp) < 0 && c.Chance(0.8) {
						// make sure the mesh is full when a negatively scored peer knocks (earlier PRUNE probes may have thinned it)
						for _, q := range pups {
							s0 := nd.Snap()
							if len(s0.Mesh["t"]) >= params.Dhi {
								break
							}
							_, in := s0.Mesh["t"][q.p.ID()]
							_, bo := s0.Backoff["t"][q.p.ID()]
							if q != gp && !in && !bo && sc(q) >= 0 && !q.direct {
								w.send(q, vGraftRPC("t"))
								vSettle(5 * time.Millisecond)
							}
						}
						mark = gp.p.WireLen()
					}
					before := nd.Snap()
					w.send(gp, vGraftRPC("t"))
					vSettle(20 * time.Millisecond)
					after := nd.Snap()
					_, was := before.Mesh["t"][gp.p.ID()]
					_, is := after.Mesh["t"][gp.p.ID()]
					var prunes []*pb.ControlPrune
					for _, wr := range gp.p.WireSince(mark) {
						for _, pr := range wr.RPC.GetControl().GetPrune() {
							if pr.GetTopicID() == "t" {
								prunes = append(prunes, pr)
							}
						}
					}
					switch {
					case gp.direct:
						classes["graft/direct"]++
						if is {
							fail(map[string]string{"kind": "direct_peer_in_mesh"}, gp, "GRAFT from a direct peer put it in the mesh")
						}
					case !accept(gp):
						if is != was || len(prunes) > 0 {
							fail(map[string]string{"kind": "graylisted_control_effect", "what": "graft"}, gp, "GRAFT from a graylisted peer had an effect (mesh %v->%v, %d PRUNE replies)", was, is, len(prunes))
						}
						classes["graft/graylisted"]++
					case sc(gp) < 0:
						if is {
							fail(map[string]string{"kind": "negative_score_grafted"}, gp, "GRAFT from a negatively scored peer was admitted")
						}
						if !was && len(prunes) == 0 {
							fail(map[string]string{"kind": "negative_graft_not_refused"}, gp, "GRAFT from a negatively scored peer was not answered with PRUNE")
						}
						for _, pr := range prunes {
							if len(pr.Peers) > 0 {
								fail(map[string]string{"kind": "px_to_negative_peer"}, gp, "PRUNE refusing a negatively scored peer carries %d PX records", len(pr.Peers))
							}
						}
						classes["graft/negative"]++
						if len(before.Mesh["t"]) >= params.Dhi {
							classes["graft/negative/mesh_full"]++
							if !before.Outbound[gp.p.ID()] && gp.proto != GossipSubID_v10 {
								classes["graft/negative/mesh_full_inbound_px_capable"]++
							}
						}
					default:
						if !is {
							// (a mesh that already holds Dhi peers refuses inbound-connected peers whatever their score)
							if _, bo := before.Backoff["t"][gp.p.ID()]; !bo && (len(before.Mesh["t"]) < params.Dhi || before.Outbound[gp.p.ID()]) {
								fail(map[string]string{"kind": "graft_refused"}, gp, "GRAFT from a peer with score >= 0 and no backoff was not admitted (mesh size %d)", len(before.Mesh["t"]))
							}
						}
						classes["graft/nonnegative"]++
					}
				case "prunepx":
					var infos []*pb.PeerInfo
					allow := accept(gp) && sc(gp) >= pxTh
					for _, kind := range []string{"valid", "mismatch", "corrupt", "none"} {
						if !c.Chance(0.7) {
							continue
						}
						id, _, rec := c09Record(c, w.r.n)
						switch kind {
						case "valid":
							infos = append(infos, &pb.PeerInfo{PeerID: []byte(id), SignedPeerRecord: rec})
						case "mismatch":
							other, _, _ := c09Record(c, w.r.n)
							infos = append(infos, &pb.PeerInfo{PeerID: []byte(other), SignedPeerRecord: rec})
							id = other
						case "corrupt":
							bad := append([]byte(nil), rec...)
							bad[len(bad)/2] ^= 0xff
							bad[len(bad)-3] ^= 0x55
							infos = append(infos, &pb.PeerInfo{PeerID: []byte(id), SignedPeerRecord: bad})
						case "none":
							infos = append(infos, &pb.PeerInfo{PeerID: []byte(id)})
						}
						px = append(px, pxExpect{id: id, kind: kind, from: gp, allow: allow})
					}
					tt := "t"
					bo := uint64(1)
					w.send(gp, &pb.RPC{Control: &pb.ControlMessage{Prune: []*pb.ControlPrune{{TopicID: &tt, Peers: infos, Backoff: &bo}}}})
					vSettle(20 * time.Millisecond)
					classes["prunepx/"+side(sc(gp), pxTh)]++
				}
			}
			// PX: which advertised peers did the node try to connect to?
			vSettle(200 * time.Millisecond)
			dialed := map[peer.ID]bool{}
			for _, pi := range w.r.nd.h.Connects() {
				dialed[pi.ID] = true
			}
			for _, e := range px {
				switch {
				case dialed[e.id] && !e.allow:
					k := "px_below_threshold_followed"
					if !accept(e.from) {
						k = "graylisted_control_effect"
					}
					fail(map[string]string{"kind": k, "what": "px", "record": e.kind}, e.from, "PX entry (%s record) from this peer was followed", e.kind)
				case dialed[e.id] && (e.kind == "mismatch" || e.kind == "corrupt"):
					fail(map[string]string{"kind": "px_invalid_record_followed", "record": e.kind}, e.from, "PX entry with a %s signed record was followed", e.kind)
				case dialed[e.id]:
					classes["px_followed/"+e.kind]++
				default:
					classes["px_not_followed/"+e.kind]++
				}
			}
			// ---- heartbeat-driven rules: IHAVE emission, pruning of negative mesh members, fanout eviction
			if !c.Violated() {
				// make one good mesh member turn negative, and one fanout member fall below the publish threshold
				w.handle("f").Publish(context.Background(), []byte("fan-1"))
				vSettle(10 * time.Millisecond)
				s := nd.Snap()
				var victimMesh, victimFan *gsPup
				for _, gp := range pups {
					if _, in := s.Mesh["t"][gp.p.ID()]; in && victimMesh == nil && !gp.direct {
						victimMesh = gp
					} else if _, in := s.Fanout["f"][gp.p.ID()]; in && victimFan == nil && !gp.direct {
						victimFan = gp
					}
				}
				for p := range s.Fanout["f"] {
					if gp := w.byID[p]; gp != nil && gp != obs && sc(gp) < publishTh {
						fail(map[string]string{"kind": "fanout_below_publish_threshold"}, gp, "peer below the publish threshold was chosen as a fanout peer")
					}
				}
				if victimMesh != nil {
					w.app.Set(victimMesh.p.ID(), -0.5)
					w.note("score(%s)=-0.5 (mesh member)", victimMesh.p.name)
				}
				if victimFan != nil {
					w.app.Set(victimFan.p.ID(), publishTh-0.5)
					w.note("score(%s)=%v (fanout member)", victimFan.p.name, publishTh-0.5)
				}
				vmark := 0
				if victimMesh != nil {
					vmark = victimMesh.p.WireLen()
				}
				w.handle("t").Publish(context.Background(), []byte("hb-msg"))
				w.r.ToNextGap(50 * time.Millisecond)
				s2 := nd.Snap()
				if victimMesh != nil {
					if _, in := s2.Mesh["t"][victimMesh.p.ID()]; in {
						fail(map[string]string{"kind": "negative_not_pruned_at_heartbeat"}, victimMesh, "still in the mesh one heartbeat after its score went negative")
					}
					for _, wr := range victimMesh.p.WireSince(vmark) {
						for _, pr := range wr.RPC.GetControl().GetPrune() {
							if len(pr.Peers) > 0 {
								fail(map[string]string{"kind": "px_to_negative_peer"}, victimMesh, "PRUNE of a negatively scored mesh member carries %d PX records", len(pr.Peers))
							}
						}
					}
					classes["hb/negative_pruned"]++
				}
				if victimFan != nil {
					if _, in := s2.Fanout["f"][victimFan.p.ID()]; in {
						fail(map[string]string{"kind": "fanout_member_below_threshold_kept"}, victimFan, "still a fanout peer one heartbeat after falling below the publish threshold")
					}
					classes["hb/fanout_evicted"]++
				}
				countIHave()
				for _, gp := range pups {
					n := ihaveSeen[gp.p.ID()]
					if sc(gp) < gossipTh && gp != victimFan && gp != victimMesh && n > 0 {
						fail(map[string]string{"kind": "ihave_sent_below_gossip_threshold"}, gp, "received %d IHAVE although below the gossip threshold", n)
					}
					if n > 0 {
						classes["ihave_emitted/"+side(sc(gp), gossipTh)]++
					} else {
						classes["ihave_not_emitted/"+side(sc(gp), gossipTh)]++
					}
				}
			}
			// ---- joining a topic that has fanout state: a fanout member may sit in [publish threshold, 0); it is
			// still never grafted (observed right after Join, before any heartbeat can prune it again)
			if !c.Violated() {
				w.handle("f").Publish(context.Background(), []byte("fan-2"))
				vSettle(10 * time.Millisecond)
				sF := nd.Snap()
				marks := map[*gsPup]int{}
				negFan := 0
				for _, gp := range pups {
					marks[gp] = gp.p.WireLen()
					if _, in := sF.Fanout["f"][gp.p.ID()]; in && sc(gp) < 0 {
						negFan++
					}
				}
				if _, err := w.handle("f").Subscribe(); err == nil {
					vSettle(20 * time.Millisecond)
					s3 := nd.Snap()
					for _, gp := range pups {
						if sc(gp) >= 0 {
							continue
						}
						if _, in := s3.Mesh["f"][gp.p.ID()]; in {
							fail(map[string]string{"kind": "negative_score_grafted", "on": "join_from_fanout"}, gp, "negatively scored peer is in the mesh right after Join (it was a fanout peer: %v)", func() bool { _, f := sF.Fanout["f"][gp.p.ID()]; return f }())
						}
						for _, wr := range gp.p.WireSince(marks[gp]) {
							for _, g := range wr.RPC.GetControl().GetGraft() {
								if g.GetTopicID() == "f" {
									fail(map[string]string{"kind": "negative_score_grafted", "on": "join_from_fanout_wire"}, gp, "GRAFT sent to a negatively scored peer on Join")
								}
							}
						}
					}
					if negFan > 0 {
						classes["join/negative_fanout_member"]++
					} else {
						classes["join/no_negative_fanout_member"]++
					}
				}
			}
			for k, v := range classes {
				c.Count("class:"+k, v)
			}
			var ks []string
			for k := range classes {
				ks = append(ks, k)
			}
			sort.Strings(ks)
			c.Sig(gossipTh, publishTh, grayTh, pxTh, strings.Join(ks, ","))
			c.Nontrivial(len(ks) >= 6)
			if c.Idx < 2 {
				c.Sample(map[string]any{"thresholds": fmt.Sprintf("gossip=%v publish=%v graylist=%v acceptPX=%v", gossipTh, publishTh, grayTh, pxTh), "probes": w.hist, "classes": classes})
			}
		})
	})
}

// Gater: validation overload must only ever suppress payload, never control.
func TestVerifC09Gater(t *testing.T) {
	vRun(t, "C09.gater", vCount(150, 10000), func(c *vCase) {
		c.Bubble(func() {
			params := vFastParams()
			params.D, params.Dlo, params.Dhi, params.Dscore, params.Dout = 8, 6, 16, 4, 2
			params.HistoryLength, params.HistoryGossip = 200, 3
			th := PeerScoreThresholds{GossipThreshold: -10, PublishThreshold: -20, GraylistThreshold: -30, AcceptPXThreshold: 100, OpportunisticGraftThreshold: 1}
			gp0 := NewPeerGaterParams(0.1, 0.9, 0.999)
			gp0.Quiet = time.Duration(c.Range(5, 60)) * time.Second
			block := make(chan struct{})
			slow := func(ctx context.Context, p peer.ID, m *Message) ValidationResult {
				if strings.HasPrefix(string(m.Data), "slow") {
					select {
					case <-block:
					case <-ctx.Done():
					}
				}
				return ValidationAccept
			}
			w := gsNewWorld(c, gsConfig{params: params, th: th, scoring: true, nPups: c.Range(3, 6), floodSub: 0, opts: []Option{
				WithPeerGater(gp0), WithValidateQueueSize(1), WithValidateWorkers(1), WithDefaultValidator(slow, WithValidatorInline(true)),
				WithMessageIdFn(func(m *pb.Message) string { return string(m.Data) })}})
			if w == nil {
				return
			}
			defer w.Close()
			defer close(block)
			nd := w.nd
			for _, gp := range w.pups {
				if !w.attach(gp) {
					c.Inconclusive("attach")
					return
				}
				w.send(gp, vSubRPC(true, "t"))
			}
			vSettle(10 * time.Millisecond)
			if _, err := w.handle("t").Subscribe(); err != nil {
				panic(err)
			}
			w.handle("t").Publish(context.Background(), []byte("cached-0"))
			vSettle(10 * time.Millisecond)
			bad := w.pups[0]
			// half of the cases: the peer with the bad statistics is a direct peer, which the gater must never touch
			badDirect := c.Chance(0.5)
			if badDirect {
				nd.ps.AddDirectPeer(peer.AddrInfo{ID: bad.p.ID()})
				bad.direct = true
			}
			// 1. give the bad peer reject statistics (invalid signatures)
			for i := 0; i < c.Range(2, 6); i++ {
				m := vSignedMsg(bad.p.key, "t", vSeqno(uint64(1000+i)), []byte(fmt.Sprintf("forged-%d", i)))
				m.Signature[3] ^= 0xff
				w.send(bad, vMsgRPC(m))
			}
			vSettle(20 * time.Millisecond)
			// 2. overload validation: one message blocks the only worker, one fills the queue, the rest are throttled
			src := w.pups[1]
			for i := 0; i < c.Range(4, 9); i++ {
				w.send(src, vMsgRPC(vSignedMsg(src.p.key, "t", vSeqno(uint64(2000+i)), []byte(fmt.Sprintf("slow-%d", i)))))
			}
			vSettle(20 * time.Millisecond)
			// 3. the bad peer now sends RPCs that mix payload and control
			n := c.Range(4, 12)
			throttled, full := 0, 0
			for i := 0; i < n && !c.Violated(); i++ {
				t0 := nd.tr.Len()
				mark := bad.p.WireLen()
				before := nd.Snap()
				data := fmt.Sprintf("mix-%d", i)
				rpc := vMsgRPC(vSignedMsg(bad.p.key, "t", vSeqno(uint64(3000+i)), []byte(data)))
				kind := []string{"graft", "iwant"}[c.Intn(2)]
				if _, in := before.Mesh["t"][bad.p.ID()]; in {
					kind = "iwant"
				}
				if kind == "graft" {
					rpc.Control = vGraftRPC("t").Control
				} else {
					rpc.Control = &pb.ControlMessage{Iwant: []*pb.ControlIWant{{MessageIDs: []string{"cached-0"}}}}
				}
				w.send(bad, rpc)
				vSettle(20 * time.Millisecond)
				was := false
				validated := false
				for _, e := range nd.tr.Since(t0) {
					if e.Kind == "throttle" && e.Peer == bad.p.ID() {
						was = true
					}
					if (e.Kind == "validate" || e.Kind == "deliver") && e.ID == data {
						validated = true
					}
					if e.Kind == "reject" && e.ID == data && e.Reason == RejectValidationQueueFull {
						validated = true // it did enter the pipeline's front door
					}
				}
				if badDirect {
					if was {
						c.Violatef(map[string]string{"kind": "direct_peer_throttled"}, "an RPC of a direct peer was throttled by the gater")
					}
					// its payload must get to the validation pipeline's front door whatever the gater thinks
					if !validated {
						c.Violatef(map[string]string{"kind": "direct_peer_payload_dropped"}, "payload %s of a direct peer never reached validation while the gater was active", data)
					}
					full++
					continue
				}
				if !was {
					full++
					continue
				}
				throttled++
				if validated {
					c.Violatef(map[string]string{"kind": "throttled_payload_processed"}, "payload of a throttled RPC entered validation")
				}
				after := nd.Snap()
				switch kind {
				case "graft":
					if _, in := after.Mesh["t"][bad.p.ID()]; !in {
						if _, bo := before.Backoff["t"][bad.p.ID()]; !bo {
							c.Violatef(map[string]string{"kind": "gater_suppressed_control", "what": "graft"}, "GRAFT in a throttled RPC had no effect (peer not in mesh, no backoff)")
						}
					}
				case "iwant":
					served := false
					for _, wr := range bad.p.WireSince(mark) {
						for _, m := range wr.RPC.Publish {
							if string(m.Data) == "cached-0" {
								served = true
							}
						}
					}
					// the retransmission cap (3) legitimately stops replies
					if !served && i < 3 {
						c.Violatef(map[string]string{"kind": "gater_suppressed_control", "what": "iwant"}, "IWANT in a throttled RPC went unanswered")
					}
				}
			}
			c.Count("rpcs_throttled", throttled)
			c.Count("rpcs_accepted_fully", full)
			c.Sig(n, throttled > 0, full > 0, gp0.Quiet, badDirect)
			c.Nontrivial(throttled > 0 || badDirect)
			if badDirect {
				c.Count("direct_peer_rpcs_under_gater", full)
			}
			if c.Idx < 2 {
				c.Sample(map[string]any{"mixed_rpcs": n, "throttled": throttled, "accepted_fully": full})
			}
		})
	})
}
