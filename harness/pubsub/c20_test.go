//go:build verif

package pubsub

// C20 — the sequence-number validator never accepts a replay.
// (a) validator alone, real time, all Ps, also under -race: delay injection in
//     the metadata store (exactly between the validator's read-locked and
//     write-locked sections); history checked as a max-register per author.
// (b) in a node (c20b_test.go).

import (
	"context"
	"encoding/binary"
	"fmt"
	"log/slog"
	"runtime"
	"sort"
	"strings"
	"sync"
	"sync/atomic"
	"testing"
	"time"

	"github.com/anishathalye/porcupine"
	pb "github.com/libp2p/go-libp2p-pubsub/pb"
	"github.com/libp2p/go-libp2p/core/peer"
)

type c20Put struct {
	author peer.ID
	val    uint64
	stamp  int64
}

type c20Store struct {
	mu    sync.Mutex
	m     map[peer.ID][]byte
	puts  []c20Put
	clock *atomic.Int64
	delay func() int
}

func (s *c20Store) pause() {
	if s.delay == nil {
		return
	}
	n := s.delay()
	for i := 0; i < n; i++ {
		runtime.Gosched()
	}
	if n > 20 {
		time.Sleep(time.Duration(n) * time.Microsecond)
	}
}

func (s *c20Store) Get(_ context.Context, p peer.ID) ([]byte, error) {
	s.pause()
	s.mu.Lock()
	v := s.m[p]
	s.mu.Unlock()
	s.pause()
	return v, nil
}

func (s *c20Store) Put(_ context.Context, p peer.ID, v []byte) error {
	s.pause()
	s.mu.Lock()
	s.m[p] = append([]byte(nil), v...)
	var x uint64
	if len(v) == 8 {
		x = binary.BigEndian.Uint64(v)
	}
	st := int64(0)
	if s.clock != nil {
		st = s.clock.Add(1)
	}
	s.puts = append(s.puts, c20Put{p, x, st})
	s.mu.Unlock()
	s.pause()
	return nil
}

type c20In struct {
	Author int
	Seqno  uint64
}

func c20Model() porcupine.Model {
	return porcupine.Model{
		Partition: func(history []porcupine.Operation) [][]porcupine.Operation {
			m := map[int][]porcupine.Operation{}
			for _, o := range history {
				a := o.Input.(c20In).Author
				m[a] = append(m[a], o)
			}
			var out [][]porcupine.Operation
			for _, v := range m {
				out = append(out, v)
			}
			return out
		},
		Init: func() interface{} { return uint64(0) },
		Step: func(state, input, output interface{}) (bool, interface{}) {
			st := state.(uint64)
			in := input.(c20In)
			res := output.(ValidationResult)
			if in.Seqno > st {
				return res == ValidationAccept, in.Seqno
			}
			return res == ValidationIgnore, st
		},
		Equal: func(a, b interface{}) bool { return a.(uint64) == b.(uint64) },
		DescribeOperation: func(input, output interface{}) string {
			return fmt.Sprintf("%+v -> %v", input, output)
		},
	}
}

var c20Discard = slog.New(slog.NewTextHandler(discardWriter{}, nil))

type discardWriter struct{}

func (discardWriter) Write(p []byte) (int, error) { return len(p), nil }

func TestVerifC20Val(t *testing.T) {
	vRun(t, "C20.val", vCount(2000, 100000), func(c *vCase) {
		var clock atomic.Int64
		heavy := c.Chance(0.5)
		// per-goroutine deterministic delay streams would need per-goroutine PRNGs; a shared
		// atomic counter hashed with the case seed is enough to spread the yields
		var dctr atomic.Uint64
		seed := c.Seed
		store := &c20Store{m: map[peer.ID][]byte{}, clock: &clock, delay: func() int {
			x := (dctr.Add(1) * 0x9e3779b97f4a7c15) ^ seed
			x ^= x >> 29
			if heavy {
				return int(x % 24)
			}
			return int(x % 4)
		}}
		val := NewBasicSeqnoValidator(store, c20Discard)
		nAuthors := c.Range(1, 3)
		authors := make([]peer.ID, nAuthors)
		for i := range authors {
			authors[i] = peer.ID(fmt.Sprintf("author-%d", i))
		}
		// small seqno set with duplicates, decreasing runs, 0 and max
		pool := []uint64{0, 1, 2, 3, 4, 5, 7, 9, ^uint64(0), ^uint64(0) - 1, 1 << 32}
		pool = pool[:c.Range(4, len(pool))]
		nG := c.Range(4, 16)
		per := c.Range(1, 3)
		type call struct {
			a int
			s uint64
		}
		plans := make([][]call, nG)
		for g := range plans {
			for k := 0; k < per; k++ {
				plans[g] = append(plans[g], call{c.Intn(nAuthors), pool[c.Intn(len(pool))]})
			}
			if c.Chance(0.3) { // a decreasing run from one goroutine
				sort.Slice(plans[g], func(i, j int) bool { return plans[g][i].s > plans[g][j].s })
			}
		}
		var mu sync.Mutex
		var ops []porcupine.Operation
		var wg sync.WaitGroup
		start := make(chan struct{})
		for g := 0; g < nG; g++ {
			wg.Add(1)
			go func(g int) {
				defer wg.Done()
				<-start
				for _, cl := range plans[g] {
					m := &Message{Message: &pb.Message{From: []byte(authors[cl.a]), Seqno: vSeqno(cl.s)}}
					call := clock.Add(1)
					res := val(context.Background(), "src", m)
					ret := clock.Add(1)
					mu.Lock()
					ops = append(ops, porcupine.Operation{ClientId: g, Input: c20In{cl.a, cl.s}, Call: call, Output: res, Return: ret})
					mu.Unlock()
				}
			}(g)
		}
		close(start)
		fin := make(chan struct{})
		go func() { wg.Wait(); close(fin) }()
		select {
		case <-fin:
		case <-time.After(60 * time.Second):
			c.Inconclusive("watchdog")
			return
		}
		// oracle 1: Put values strictly increasing per author and exactly the accepted seqnos
		accepted := map[int][]uint64{}
		for _, o := range ops {
			if o.Output.(ValidationResult) == ValidationAccept {
				in := o.Input.(c20In)
				accepted[in.Author] = append(accepted[in.Author], in.Seqno)
			}
			if r := o.Output.(ValidationResult); r != ValidationAccept && r != ValidationIgnore {
				c.Violatef(map[string]string{"kind": "verdict"}, "validator returned %v (only Accept/Ignore are possible without store errors)", r)
			}
		}
		for ai, a := range authors {
			var puts []uint64
			for _, p := range store.puts {
				if p.author == a {
					puts = append(puts, p.val)
				}
			}
			for i := 1; i < len(puts); i++ {
				if puts[i] <= puts[i-1] {
					c.Violatef(map[string]string{"kind": "nonce_decreased"}, "author %d: stored nonce went %d -> %d (puts=%v)", ai, puts[i-1], puts[i], puts)
				}
			}
			acc := append([]uint64(nil), accepted[ai]...)
			sort.Slice(acc, func(i, j int) bool { return acc[i] < acc[j] })
			for i := 1; i < len(acc); i++ {
				if acc[i] == acc[i-1] {
					c.Violatef(map[string]string{"kind": "replay_accepted"}, "author %d: seqno %d accepted twice", ai, acc[i])
				}
			}
			sp := append([]uint64(nil), puts...)
			sort.Slice(sp, func(i, j int) bool { return sp[i] < sp[j] })
			if fmt.Sprint(sp) != fmt.Sprint(acc) {
				c.Violatef(map[string]string{"kind": "store_mismatch"}, "author %d: accepted %v but stored %v", ai, acc, puts)
			}
			var final uint64
			if b := store.m[a]; len(b) == 8 {
				final = binary.BigEndian.Uint64(b)
			}
			var maxAcc uint64
			for _, s := range acc {
				if s > maxAcc {
					maxAcc = s
				}
			}
			if final != maxAcc {
				c.Violatef(map[string]string{"kind": "final_nonce"}, "author %d: final stored nonce %d, highest accepted %d", ai, final, maxAcc)
			}
		}
		// oracle 2: linearizable as a max-register per author
		res, _ := porcupine.CheckOperationsVerbose(c20Model(), ops, 20*time.Second)
		switch res {
		case porcupine.Illegal:
			c.Violatef(map[string]string{"kind": "not_linearizable"}, "history is not linearizable as a max-register: %s", c20Hist(ops))
		case porcupine.Unknown:
			c.Inconclusive("porcupine timeout on %d ops", len(ops))
		}
		nacc := 0
		for _, v := range accepted {
			nacc += len(v)
		}
		c.Count("validations", len(ops))
		c.Count("accepted", nacc)
		c.Count("store_puts", len(store.puts))
		c.Order(c20Shape(ops))
		c.Sig(nAuthors, nG, len(pool), c20Shape(ops))
		c.Nontrivial(len(ops) >= 6 && nacc >= 1 && nacc < len(ops))
		if c.Idx < 2 {
			c.Sample(map[string]any{"authors": nAuthors, "goroutines": nG, "seqno_pool": fmt.Sprint(pool), "history": c20Hist(ops)})
		}
	})
}

func c20Shape(ops []porcupine.Operation) string {
	s := append([]porcupine.Operation(nil), ops...)
	sort.Slice(s, func(i, j int) bool { return s[i].Call < s[j].Call })
	var b strings.Builder
	for _, o := range s {
		in := o.Input.(c20In)
		fmt.Fprintf(&b, "%d:%d:%d,", in.Author, in.Seqno%1000, o.Output.(ValidationResult))
	}
	return b.String()
}

func c20Hist(ops []porcupine.Operation) string {
	s := append([]porcupine.Operation(nil), ops...)
	sort.Slice(s, func(i, j int) bool { return s[i].Call < s[j].Call })
	var parts []string
	for _, o := range s {
		in := o.Input.(c20In)
		parts = append(parts, fmt.Sprintf("[%d-%d g%d a%d seq=%d -> %d]", o.Call, o.Return, o.ClientId, in.Author, in.Seqno, o.Output.(ValidationResult)))
	}
	return strings.Join(parts, " ")
}

// Wrong-length encodings: every seqno length 0..12 against a fresh and a
// primed store. Oracle: no panic, verdict is never Accept for a number that is
// not greater than the stored nonce, the stored nonce never decreases.
func TestVerifC20Len(t *testing.T) {
	vRun(t, "C20.len", vCount(200, 5000), func(c *vCase) {
		store := &c20Store{m: map[peer.ID][]byte{}}
		val := NewBasicSeqnoValidator(store, c20Discard)
		author := peer.ID("author")
		var hist []string
		var last uint64
		steps := c.Range(3, 12)
		for i := 0; i < steps; i++ {
			l := c.Intn(13)
			b := make([]byte, l)
			for k := range b {
				b[k] = byte(c.Intn(256))
			}
			if c.Chance(0.3) && l >= 8 { // small numbers
				for k := 0; k < 7; k++ {
					b[k] = 0
				}
			}
			var res ValidationResult
			func() {
				defer func() {
					if r := recover(); r != nil {
						c.Violatef(map[string]string{"kind": "panic", "where": "BasicSeqnoValidator", "seqno_len": fmt.Sprint(l)},
							"validator panicked on a %d-byte seqno: %v (history %v)", l, r, hist)
						res = -99
					}
				}()
				res = val(context.Background(), "src", &Message{Message: &pb.Message{From: []byte(author), Seqno: b}})
			}()
			hist = append(hist, fmt.Sprintf("len%d->%d", l, res))
			var cur uint64
			if sb := store.m[author]; len(sb) == 8 {
				cur = binary.BigEndian.Uint64(sb)
			}
			if cur < last {
				c.Violatef(map[string]string{"kind": "nonce_decreased"}, "stored nonce decreased %d -> %d after a %d-byte seqno", last, cur, l)
			}
			if res == ValidationAccept && l < 8 {
				// fewer than eight bytes (or none at all) is not a sequence number greater than anything
				c.Violatef(map[string]string{"kind": "short_seqno_accepted", "seqno_len": fmt.Sprint(l)}, "a %d-byte seqno was accepted (history %v)", l, hist)
			}
			if res == ValidationAccept && l == 8 && binary.BigEndian.Uint64(b) <= last {
				c.Violatef(map[string]string{"kind": "replay_accepted"}, "accepted %d with nonce %d", binary.BigEndian.Uint64(b), last)
			}
			if res == ValidationAccept && l == 8 && cur != binary.BigEndian.Uint64(b) {
				c.Violatef(map[string]string{"kind": "store_mismatch"}, "accepted %d but stored %d", binary.BigEndian.Uint64(b), cur)
			}
			last = cur
			c.Count("validations", 1)
			if c.Violated() {
				break
			}
		}
		c.Sig(strings.Join(hist, ","))
		c.Nontrivial(true)
		if c.Idx < 2 {
			c.Sample(hist)
		}
	})
}
