//go:build verif

package pubsub

// C02 monitor (a): node level. Copies of a few messages arrive from several
// puppets (and from a concurrent local Publish) at PRNG virtual times placed
// around the seen-cache TTL and sweep interval; every subscription and every
// validator must see a message ID at most once per remembered window, and a
// copy arriving after TTL + sweep must be treated as new again.

import (
	"context"
	"crypto/sha256"
	"fmt"
	"sort"
	"strings"
	"sync"
	"testing"
	"time"

	pb "github.com/libp2p/go-libp2p-pubsub/pb"
	"github.com/libp2p/go-libp2p-pubsub/timecache"
	"github.com/libp2p/go-libp2p/core/peer"
)

func TestVerifC02Node(t *testing.T) {
	vRun(t, "C02.node", vCount(300, 25000), func(c *vCase) {
		c.Bubble(func() {
			router := []string{"gossipsub", "floodsub", "randomsub"}[c.Intn(3)]
			strat := timecache.Strategy(c.Intn(2))
			ttl := []time.Duration{2 * time.Second, 30 * time.Second, 120 * time.Second}[c.Intn(3)]
			const sweep = time.Minute
			idKind := []string{"default", "global_hash", "topic_hash"}[c.Intn(3)]
			signed := c.Chance(0.7)
			nVal := c.Range(0, 2)
			hash := func(m *pb.Message) string { h := sha256.Sum256(m.Data); return string(h[:8]) }
			var mu sync.Mutex
			valCalls := map[string]int{} // "v<i>|payload" -> invocations
			mkVal := func(i int, delay time.Duration) ValidatorEx {
				return func(ctx context.Context, p peer.ID, m *Message) ValidationResult {
					mu.Lock()
					valCalls[fmt.Sprintf("v%d|%s", i, m.Data)]++
					mu.Unlock()
					if delay > 0 {
						time.Sleep(delay)
					}
					return ValidationAccept
				}
			}
			opts := []Option{WithSeenMessagesTTL(ttl), WithSeenMessagesStrategy(strat)}
			if !signed {
				opts = append(opts, WithMessageSignaturePolicy(LaxNoSign))
			}
			if idKind == "global_hash" {
				opts = append(opts, WithMessageIdFn(hash))
			}
			var vdesc []string
			for i := 0; i < nVal; i++ {
				inline := c.Chance(0.4)
				delay := time.Duration(0)
				if !inline && c.Chance(0.7) {
					delay = time.Duration(c.Range(1, 30)) * 10 * time.Millisecond
				}
				opts = append(opts, WithDefaultValidator(mkVal(i, delay), WithValidatorInline(inline)))
				vdesc = append(vdesc, fmt.Sprintf("v%d inline=%v delay=%v", i, inline, delay))
			}
			r := vNewRig(c)
			defer r.Close()
			if err := r.Start(router, opts...); err != nil {
				c.Inconclusive("node: %v", err)
				return
			}
			nd, me := r.nd, r.nd.ID()
			var topicOpts []TopicOpt
			if idKind == "topic_hash" {
				topicOpts = append(topicOpts, WithTopicMessageIdFn(hash))
			}
			tp, err := nd.ps.Join("t", topicOpts...)
			if err != nil {
				panic(err)
			}
			nSubs := c.Range(1, 2)
			got := make([]map[string]int, nSubs)
			for i := 0; i < nSubs; i++ {
				sub, err := tp.Subscribe()
				if err != nil {
					panic(err)
				}
				got[i] = map[string]int{}
				go func(i int) {
					for {
						m, err := sub.Next(nd.ctx)
						if err != nil {
							return
						}
						mu.Lock()
						got[i][string(m.Data)]++
						mu.Unlock()
					}
				}(i)
			}
			proto := FloodSubID
			if router == "randomsub" {
				proto = RandomSubID
			}
			nP := c.Range(2, 5)
			var P []*vPuppet
			for i := 0; i < nP; i++ {
				P = append(P, r.NewPuppet(fmt.Sprintf("p%d", i), proto, ""))
			}
			O := r.NewPuppet("O", proto, "")
			for _, p := range append([]*vPuppet{O}, P...) {
				if err := r.Attach(p, c.Chance(0.5)); err != nil {
					c.Inconclusive("attach")
					return
				}
				p.Send(me, vSubRPC(true, "t"))
			}
			vSettle(50 * time.Millisecond)
			author := r.n.genKey(false)
			// ---- schedule: arrivals of 1..3 payloads
			type arrival struct {
				at      time.Duration
				payload string
				from    int // puppet index, -1 = local publish
			}
			nMsgs := c.Range(1, 3)
			gaps := []time.Duration{0, 0, 3 * time.Millisecond, 150 * time.Millisecond, ttl / 2, ttl - 200*time.Millisecond, ttl + sweep/2, ttl + sweep + 2*time.Second}
			var sched []arrival
			for m := 0; m < nMsgs; m++ {
				payload := fmt.Sprintf("payload-%d", m)
				at := time.Duration(c.Range(0, 50)) * time.Millisecond
				n := c.Range(2, 9)
				for k := 0; k < n; k++ {
					at += gaps[c.Intn(len(gaps))]
					from := c.Intn(nP)
					if idKind != "default" && c.Chance(0.2) {
						from = -1
					}
					sched = append(sched, arrival{at + time.Duration(2*c.Intn(3))*time.Millisecond/2*2 + 1*time.Millisecond, payload, from})
				}
			}
			sort.SliceStable(sched, func(i, j int) bool { return sched[i].at < sched[j].at })
			msgs := map[string]*pb.Message{}
			for m := 0; m < nMsgs; m++ {
				payload := fmt.Sprintf("payload-%d", m)
				if signed {
					msgs[payload] = vSignedMsg(author, "t", vSeqno(uint64(100+m)), []byte(payload))
				} else {
					tn := "t"
					msgs[payload] = &pb.Message{From: []byte(c03ID(author)), Seqno: vSeqno(uint64(100 + m)), Data: []byte(payload), Topic: &tn}
				}
			}
			// ---- run it, grouping arrivals that share an instant
			type model struct {
				present bool
				expiry  time.Time
			}
			mod := map[string]*model{}
			classes := map[string]int{}
			var hist []string
			fail := func(cause map[string]string, format string, args ...any) {
				cause["strategy"] = fmt.Sprint(strat)
				c.Violatef(cause, "router=%s strategy=%d ttl=%v id=%s signed=%v validators=%v: %s\n arrivals=%v", router, strat, ttl, idKind, signed, vdesc, fmt.Sprintf(format, args...), hist)
			}
			start := time.Now()
			snapshot := func(payload string) (deliv []int, vals []int, fwd int) {
				mu.Lock()
				for i := range got {
					deliv = append(deliv, got[i][payload])
				}
				for i := 0; i < nVal; i++ {
					vals = append(vals, valCalls[fmt.Sprintf("v%d|%s", i, payload)])
				}
				mu.Unlock()
				for _, wr := range O.Wire() {
					for _, m := range wr.RPC.Publish {
						if string(m.Data) == payload {
							fwd++
						}
					}
				}
				return
			}
			// the moment a copy is treated as new is visible at once: the first validator is entered (it then
			// sleeps its delay), or, without validators, the message is delivered in the same instant
			indicator := func(payload string) int {
				mu.Lock()
				defer mu.Unlock()
				if nVal > 0 {
					return valCalls["v0|"+payload]
				}
				return got[0][payload]
			}
			var pubs sync.WaitGroup
			expectTotal := map[string]int{}
			i := 0
			for i < len(sched) && !c.Violated() {
				g := []arrival{sched[i]}
				j := i + 1
				for j < len(sched) && sched[j].at == sched[i].at {
					g = append(g, sched[j])
					j++
				}
				i = j
				if d := g[0].at - time.Since(start); d > 0 {
					time.Sleep(d)
				}
				vSettle(0)
				now := time.Now()
				payloads := map[string]int{}
				before := map[string]int{}
				for _, a := range g {
					payloads[a.payload]++
					before[a.payload] = indicator(a.payload)
				}
				for _, a := range g {
					hist = append(hist, fmt.Sprintf("+%v %s<-%d", a.at, a.payload, a.from))
					if a.from < 0 {
						pubs.Add(1)
						go func(p string) {
							defer pubs.Done()
							if err := tp.Publish(context.Background(), []byte(p)); err != nil {
								fail(map[string]string{"kind": "local_publish_error"}, "local publish of a possibly known id returned %v", err)
							}
						}(a.payload)
					} else {
						// one RPC may carry the same message more than once (the node looks at all messages of an RPC
						// before it handles any of them)
						rpc := vMsgRPC(msgs[a.payload])
						if c.Chance(0.25) {
							for k, K := 0, c.Range(1, 2); k < K; k++ {
								rpc.Publish = append(rpc.Publish, msgs[a.payload])
								payloads[a.payload]++
							}
							hist[len(hist)-1] += fmt.Sprintf("(x%d in one RPC)", len(rpc.Publish))
							classes["same_rpc_duplicates"]++
						}
						P[a.from].Send(me, rpc)
					}
				}
				vSettle(0)
				for p, n := range payloads {
					mo := mod[p]
					zone := "absent"
					if mo != nil && mo.present {
						switch {
						case !now.After(mo.expiry):
							zone = "present"
						case now.After(mo.expiry.Add(sweep)):
							zone = "absent"
						default:
							zone = "either"
						}
					}
					newTreatments := indicator(p) - before[p]
					expectTotal[p] += newTreatments
					info := fmt.Sprintf("payload %s at +%v (%d copies at this instant, zone %s): treated as new %d time(s)", p, now.Sub(start), n, zone, newTreatments)
					switch {
					case newTreatments > 1:
						fail(map[string]string{"kind": "duplicate_same_instant", "zone": zone}, "%s", info)
					case zone == "present" && newTreatments != 0:
						fail(map[string]string{"kind": "duplicate_within_window", "zone": zone}, "%s (remembered until +%v)", info, mo.expiry.Sub(start))
					case zone == "absent" && newTreatments != 1:
						k := "not_delivered"
						if mo != nil {
							k = "not_forgotten_after_ttl_plus_sweep"
						}
						fail(map[string]string{"kind": k, "zone": zone}, "%s", info)
					}
					if newTreatments >= 1 {
						mod[p] = &model{present: true, expiry: now.Add(ttl)}
					} else if strat == timecache.Strategy_LastSeen && mo != nil && mo.present && zone != "absent" {
						mo.expiry = now.Add(ttl)
					}
					classes["zone:"+zone]++
					if n > 1 {
						classes["same_instant_group"]++
					}
					c.State(zone, newTreatments, n > 1)
				}
			}
			// every new treatment must have produced exactly one validation per validator, one delivery per
			// subscription and one forwarded copy; every duplicate none
			vSettle(2 * time.Second)
			pubs.Wait()
			vSettle(10 * time.Millisecond)
			for p, want := range expectTotal {
				d, v, f := snapshot(p)
				ok := f == want
				for _, x := range d {
					ok = ok && x == want
				}
				for _, x := range v {
					ok = ok && x == want
				}
				if !ok && !c.Violated() {
					var life []string
					for _, e := range nd.tr.Events() {
						if (e.Kind == "newout" || e.Kind == "closedout") && e.Peer == O.ID() {
							life = append(life, fmt.Sprintf("%s@+%v", e.Kind, e.T.Sub(r.born)))
						}
					}
					sn := nd.Snap()
					_, q := sn.QPeers[O.ID()]
					_, gp := sn.Peers[O.ID()]
					_, tp := sn.Topics["t"][O.ID()]
					O.mu.Lock()
					oin, oend := O.inOpen, O.inEnded
					O.mu.Unlock()
					var evs []string
					for _, e := range nd.tr.Events() {
						if e.Kind == "drop" && e.Peer == O.ID() {
							evs = append(evs, fmt.Sprintf("drop@+%v", e.T.Sub(r.born)))
						}
					}
					fail(map[string]string{"kind": "inconsistent_dedup"}, "payload %s was treated as new %d time(s) but deliveries per subscription=%v validator calls=%v forwarded=%d (observer: queue=%v routerPeer=%v inTopic=%v streamsFromNode opened=%d ended=%d lifecycle %v drops %v connects=%v)",
						p, want, d, v, f, q, gp, tp, oin, oend, life, evs, len(r.nd.h.Connects()))
				}
			}
			for k, v := range classes {
				c.Count("class:"+k, v)
			}
			c.Count("arrivals", len(sched))
			var ks []string
			for k := range classes {
				ks = append(ks, k)
			}
			sort.Strings(ks)
			c.Sig(router, int(strat), ttl, idKind, signed, nVal, strings.Join(ks, ","))
			c.Nontrivial(len(ks) >= 2)
			if c.Idx < 3 {
				c.Sample(map[string]any{"router": router, "strategy": int(strat), "ttl": ttl.String(), "id_function": idKind, "signed": signed, "validators": vdesc, "arrivals": hist, "classes": classes})
			}
		})
	})
}

// C02.batch — the same claim through the batch API: one MessageBatch is
// reused for the whole case while some goroutines add messages to it and
// others publish it, with no coordination between them. Every message that was
// added must reach the subscription exactly once (never twice, never lost in
// favour of another one's second copy).
func TestVerifC02Batch(t *testing.T) {
	vRun(t, "C02.batch", vCount(300, 20000), func(c *vCase) {
		c.Bubble(func() {
			r := vNewRig(c)
			defer r.Close()
			valDelay := time.Duration(c.Range(0, 3)) * time.Millisecond
			opts := []Option{WithDefaultValidator(func(ctx context.Context, p peer.ID, m *Message) ValidationResult {
				if valDelay > 0 && len(m.Data)%2 == 0 {
					time.Sleep(valDelay)
				}
				return ValidationAccept
			})}
			if err := r.Start("gossipsub", opts...); err != nil {
				c.Inconclusive("node: %v", err)
				return
			}
			nd := r.nd
			tp, err := nd.ps.Join("t")
			if err != nil {
				panic(err)
			}
			sub, err := tp.Subscribe()
			if err != nil {
				panic(err)
			}
			var mu sync.Mutex
			got := map[string]int{}
			go func() {
				for {
					m, err := sub.Next(nd.ctx)
					if err != nil {
						return
					}
					mu.Lock()
					got[string(m.Data)]++
					mu.Unlock()
				}
			}()
			var mb MessageBatch
			nAdd := c.Range(4, 30)
			nPub := c.Range(2, 12)
			type plan struct {
				at   time.Duration
				data string
			}
			var adds, pubs []plan
			for i := 0; i < nAdd; i++ {
				adds = append(adds, plan{time.Duration(c.Range(0, 20)) * time.Millisecond, fmt.Sprintf("b%03d%s", i, strings.Repeat("x", i%3))})
			}
			for i := 0; i < nPub; i++ {
				pubs = append(pubs, plan{at: time.Duration(c.Range(0, 22)) * time.Millisecond})
			}
			var wg sync.WaitGroup
			var added sync.Map
			for _, a := range adds {
				wg.Add(1)
				go func(a plan) {
					defer wg.Done()
					time.Sleep(a.at)
					if err := tp.AddToBatch(context.Background(), &mb, []byte(a.data)); err == nil {
						added.Store(a.data, true)
					}
				}(a)
			}
			for _, p := range pubs {
				wg.Add(1)
				go func(p plan) {
					defer wg.Done()
					time.Sleep(p.at)
					nd.ps.PublishBatch(&mb)
				}(p)
			}
			wg.Wait()
			nd.ps.PublishBatch(&mb) // whatever was added last
			vSettle(200 * time.Millisecond)
			mu.Lock()
			defer mu.Unlock()
			nAdded := 0
			added.Range(func(k, _ any) bool {
				nAdded++
				d := k.(string)
				switch n := got[d]; {
				case n == 0:
					c.Violatef(map[string]string{"kind": "batched_message_lost"}, "message %q was added to the batch and never delivered (%d adds, %d publishes); deliveries: %v", d, nAdd, nPub, got)
				case n > 1:
					c.Violatef(map[string]string{"kind": "duplicate_within_window", "via": "batch"}, "message %q was delivered %d times (%d adds, %d publishes)", d, n, nAdd, nPub)
				}
				return !c.Violated()
			})
			c.Sig(nAdd/5, nPub/3, valDelay)
			c.Nontrivial(nAdded >= 4)
			c.Count("batched_messages", nAdded)
			c.Count("publish_batch_calls", nPub+1)
			c.State(nAdd/5, nPub/3)
			if c.Idx < 2 {
				c.Sample(map[string]any{"adds": nAdd, "publishes": nPub, "validator_delay": valDelay.String(), "delivered": len(got)})
			}
		})
	})
}
