//go:build verif

package pubsub

// C20 monitor (b): the sequence-number validator inside a node. Puppets send
// validly signed messages with PRNG sequence numbers in PRNG order, several at
// the same instant (several validation workers), replays after the seen window
// has been swept, and (with a content-hash message ID) replays the seen cache
// cannot catch at all.

import (
	"context"
	"crypto/sha256"
	"encoding/binary"
	"fmt"
	"sort"
	"strings"
	"sync"
	"sync/atomic"
	"testing"
	"time"

	pb "github.com/libp2p/go-libp2p-pubsub/pb"
	"github.com/libp2p/go-libp2p/core/peer"
)

func TestVerifC20Node(t *testing.T) {
	vRun(t, "C20.node", vCount(250, 20000), func(c *vCase) {
		c.Bubble(func() {
			// Yields in the metadata store sit exactly between the validator's read-locked and write-locked
			// sections, so concurrent validation workers overlap there. (A virtual-time sleep cannot be used:
			// the store is called with the validator's mutex held, and a goroutine waiting for a mutex is not
			// durably blocked, so bubble time would never advance.)
			var yc atomic.Uint64
			yseed := c.Seed
			store := &c20Store{m: map[peer.ID][]byte{}, delay: func() int {
				x := (yc.Add(1) * 0x9e3779b97f4a7c15) ^ yseed
				return int((x >> 33) % 6)
			}}
			hashID := c.Chance(0.5)
			// the seqno validator runs inline or asynchronously, alone or followed by validators that accept everything
			// (its Ignore must survive whatever the others say)
			seqInline := c.Chance(0.5)
			acceptAll := func(context.Context, peer.ID, *Message) ValidationResult { return ValidationAccept }
			seqOpts := []ValidatorOpt{WithValidatorInline(seqInline)}
			companions := ""
			if !seqInline && c.Chance(0.4) {
				// one or two concurrent runs of the seqno validator at most: copies arriving meanwhile are throttled, which
				// must drop them (nobody has compared them with the nonce), whatever the other validators say
				k := c.Range(1, 2)
				seqOpts = append(seqOpts, WithValidatorConcurrency(k))
				companions += fmt.Sprintf("seqno concurrency=%d ", k)
			}
			opts := []Option{WithDefaultValidator(NewBasicSeqnoValidator(store, c20Discard), seqOpts...), WithSeenMessagesTTL(time.Second),
				WithValidateWorkers(c.Range(1, 8))}
			if c.Chance(0.6) {
				in := c.Chance(0.6)
				opts = append(opts, WithDefaultValidator(acceptAll, WithValidatorInline(in)))
				companions += fmt.Sprintf("default(inline=%v) ", in)
			}
			topicCompanion, topicCompanionInline := c.Chance(0.5), c.Chance(0.6)
			if hashID {
				opts = append(opts, WithMessageIdFn(func(m *pb.Message) string { b, _ := m.Marshal(); h := sha256.Sum256(b); return string(h[:]) }))
			}
			topicScore := &TopicScoreParams{TopicWeight: 1, InvalidMessageDeliveriesWeight: -1, InvalidMessageDeliveriesDecay: 0.9999, TimeInMeshQuantum: time.Second}
			opts = append(opts, WithGossipSubParams(vFastParams()), WithPeerScore(&PeerScoreParams{AppSpecificScore: func(peer.ID) float64 { return 1000 }, AppSpecificWeight: 1,
				DecayInterval: time.Hour, DecayToZero: 0.01, Topics: map[string]*TopicScoreParams{"t": topicScore}},
				&PeerScoreThresholds{GossipThreshold: -1e9, PublishThreshold: -2e9, GraylistThreshold: -3e9, AcceptPXThreshold: 1e9, OpportunisticGraftThreshold: 1}))
			r := vNewRig(c)
			defer r.Close()
			if err := r.Start("gossipsub", opts...); err != nil {
				c.Inconclusive("node: %v", err)
				return
			}
			nd, me := r.nd, r.nd.ID()
			if topicCompanion {
				nd.ps.RegisterTopicValidator("t", acceptAll, WithValidatorInline(topicCompanionInline))
				companions += fmt.Sprintf("topic(inline=%v)", topicCompanionInline)
			}
			c.Logf("seqno validator inline=%v, accepting companions: %s", seqInline, companions)
			sub, err := nd.ps.Subscribe("t")
			if err != nil {
				panic(err)
			}
			var mu sync.Mutex
			type dv struct {
				author peer.ID
				seq    uint64
				n      int
			}
			var delivered []dv
			go func() {
				for {
					m, err := sub.Next(nd.ctx)
					if err != nil {
						return
					}
					var s uint64
					if len(m.Seqno) == 8 {
						s = binary.BigEndian.Uint64(m.Seqno)
					}
					mu.Lock()
					delivered = append(delivered, dv{m.GetFrom(), s, len(m.Seqno)})
					mu.Unlock()
				}
			}()
			O := r.NewPuppet("O", FloodSubID, "")
			nP := c.Range(1, 3)
			var P []*vPuppet
			for i := 0; i < nP; i++ {
				P = append(P, r.NewPuppet(fmt.Sprintf("p%d", i), vAllGossipProtos[c.Intn(4)], ""))
			}
			for _, p := range append([]*vPuppet{O}, P...) {
				if err := r.Attach(p, c.Chance(0.5)); err != nil {
					c.Inconclusive("attach")
					return
				}
				p.Send(me, vSubRPC(true, "t"))
			}
			vSettle(50 * time.Millisecond)
			pool := []uint64{0, 1, 2, 3, 5, 8, 13, 1 << 40, ^uint64(0) - 1, ^uint64(0)}
			pool = pool[:c.Range(4, len(pool))]
			var hist []string
			nonce := 0
			sendSeq := func(p *vPuppet, forwarder *vPuppet, s uint64, l int) {
				nonce++
				b := vSeqno(s)
				switch {
				case l < 8:
					b = b[8-l:]
				case l > 8:
					b = append(make([]byte, l-8), b...)
				}
				data := []byte(fmt.Sprintf("d%d", nonce)) // fresh payload: with the content-hash id every copy is a new id
				if !hashID {
					data = []byte("same")
				}
				m := vSignedMsg(p.key, "t", b, data)
				forwarder.Send(me, vMsgRPC(m))
				hist = append(hist, fmt.Sprintf("+%v %s seq=%d len=%d via %s", time.Since(r.born).Round(time.Millisecond), p.name, s, l, forwarder.name))
			}
			rounds := c.Range(2, 5)
			for rd := 0; rd < rounds && !c.Violated(); rd++ {
				n := c.Range(2, 10)
				burst := c.Chance(0.5)
				for k := 0; k < n; k++ {
					p := P[c.Intn(nP)]
					fw := P[c.Intn(nP)]
					l := 8
					if c.Chance(0.12) {
						l = c.Intn(10)
					}
					sendSeq(p, fw, pool[c.Intn(len(pool))], l)
					if !burst {
						vSettle(time.Duration(c.Range(1, 40)) * time.Millisecond)
					}
				}
				vSettle(100 * time.Millisecond)
				if c.Chance(0.5) {
					// let the seen cache (TTL 1s, swept every minute) forget everything
					vSettle(62 * time.Second)
					hist = append(hist, "(seen cache swept)")
				}
			}
			vSettle(200 * time.Millisecond)
			// ---- oracle
			fail := func(cause map[string]string, format string, args ...any) {
				c.Violatef(cause, "content_hash_id=%v: %s\n history=%v", hashID, fmt.Sprintf(format, args...), hist)
			}
			mu.Lock()
			dl := append([]dv(nil), delivered...)
			mu.Unlock()
			perAuthor := map[peer.ID][]uint64{}
			for _, d := range dl {
				if d.n != 8 {
					if d.n < 8 {
						fail(map[string]string{"kind": "short_seqno_delivered"}, "a message with a %d-byte seqno was delivered", d.n)
					}
					continue
				}
				perAuthor[d.author] = append(perAuthor[d.author], d.seq)
			}
			// The statement orders acceptances (the store's Put sequence, checked below), not deliveries: two messages
			// accepted in increasing order by concurrent validations may reach the subscription the other way round.
			// What delivery can show is a replay: the same (author, seqno) twice, or a delivered number that was never stored.
			for a, seqs := range perAuthor {
				seen := map[uint64]bool{}
				for _, q := range seqs {
					if seen[q] {
						fail(map[string]string{"kind": "replay_delivered"}, "author %s: seqno %d was delivered twice (delivered: %v)", r.Name(a), q, seqs)
						break
					}
					seen[q] = true
				}
			}
			// forwarded = delivered
			fwd := map[string]int{}
			for _, wr := range O.Wire() {
				for _, m := range wr.RPC.Publish {
					if len(m.Seqno) == 8 {
						fwd[fmt.Sprintf("%s|%d", m.From, binary.BigEndian.Uint64(m.Seqno))]++
					}
				}
			}
			del := map[string]int{}
			for _, d := range dl {
				if d.n == 8 {
					del[fmt.Sprintf("%s|%d", string(d.author), d.seq)]++
				}
			}
			for k, n := range del {
				if fwd[k] != n {
					fail(map[string]string{"kind": "delivered_forwarded_mismatch"}, "delivered %d, forwarded %d copies of %q", n, fwd[k], k[strings.Index(k, "|"):])
				}
			}
			for k, n := range fwd {
				if del[k] != n {
					fail(map[string]string{"kind": "delivered_forwarded_mismatch"}, "forwarded %d, delivered %d copies of one (author,seqno)", n, del[k])
				}
			}
			// store: strictly increasing per author = exactly what was delivered (8-byte seqnos)
			byAuthor := map[peer.ID][]uint64{}
			for _, p := range store.puts {
				byAuthor[p.author] = append(byAuthor[p.author], p.val)
			}
			for a, puts := range byAuthor {
				for i := 1; i < len(puts); i++ {
					if puts[i] <= puts[i-1] {
						fail(map[string]string{"kind": "nonce_decreased"}, "author %s: stored nonces %v", r.Name(a), puts)
					}
				}
				ds := append([]uint64(nil), perAuthor[a]...)
				sort.Slice(ds, func(i, j int) bool { return ds[i] < ds[j] })
				if fmt.Sprint(ds) != fmt.Sprint(puts) {
					// seqnos longer than 8 bytes are interpreted by their first 8 bytes; leave those cases to the no-crash check
					long := false
					for _, h := range hist {
						if strings.Contains(h, "len=9") {
							long = true
						}
					}
					if !long {
						fail(map[string]string{"kind": "store_mismatch"}, "author %s: stored %v but delivered %v", r.Name(a), puts, ds)
					}
				}
			}
			// ignored replays are not penalised (only malformed short seqnos may be rejected)
			short := false
			for _, h := range hist {
				for l := 1; l < 8; l++ {
					if strings.Contains(h, fmt.Sprintf("len=%d ", l)) {
						short = true
					}
				}
			}
			if !short {
				for p, v := range nd.Snap().Invalid {
					if v != 0 {
						fail(map[string]string{"kind": "replay_penalised"}, "%s has invalid-delivery counter %v although only replays / stale numbers were sent", r.Name(p), v)
					}
				}
			}
			c.Count("messages_sent", nonce)
			c.Count("delivered", len(dl))
			c.Sig(hashID, nP, rounds, len(dl), short, seqInline, companions)
			c.Nontrivial(len(dl) >= 1 && nonce > len(dl))
			if c.Idx < 3 {
				h := hist
				if len(h) > 25 {
					h = h[:25]
				}
				c.Sample(map[string]any{"content_hash_id": hashID, "authors": nP, "history": h, "delivered": len(dl)})
			}
		})
	})
}
