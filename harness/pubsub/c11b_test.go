//go:build verif

package pubsub

// C11 monitor (b): GossipSubRouter.sendRPC end to end. A node with
// WithMaxMessageSize(limit) sends generated RPCs to reading puppets; nothing
// larger than the limit may reach the wire, what arrives must be the original
// minus exactly the elements that cannot fit alone, and each of those must be
// covered by a DropRPC trace.

import (
	"fmt"
	"testing"
	"time"

	pb "github.com/libp2p/go-libp2p-pubsub/pb"
)

func TestVerifC11Send(t *testing.T) {
	vRun(t, "C11.send", vCount(150, 15000), func(c *vCase) {
		c.Bubble(func() {
			n := newVNet(c)
			defer n.Close()
			limit := c.Range(100, 600)
			nd, err := n.NewNode("node", "gossipsub", WithMaxMessageSize(limit), WithPeerOutboundQueueSize(4096))
			if err != nil {
				panic(err)
			}
			defer nd.cancel()
			pup := n.NewPuppet("p", "", vAllGossipProtos[c.Intn(4)])
			if c.Chance(0.5) {
				n.Connect(pup.ID(), nd.ID())
			} else {
				n.Connect(nd.ID(), pup.ID())
			}
			vSettle(200 * time.Millisecond)
			if !pup.HasInbound(nd.ID()) {
				c.Inconclusive("node never opened its stream")
				return
			}
			rounds := c.Range(1, 4)
			kinds := map[string]bool{}
			multi, dropped := 0, 0
			var descs []string
			for r := 0; r < rounds; r++ {
				orig := c11Gen(c, limit, c.Range(1, 25))
				if orig.Size() == 0 || len(c11Content(orig)) == 0 {
					// the generator may draw an RPC with nothing in it (no bytes at all, or an empty control block); sending
					// that is not a split, and "no empty RPC is produced" is about what the splitter makes of content
					continue
				}
				w0 := pup.WireLen()
				t0 := nd.tr.Len()
				urgent := c.Chance(0.3)
				want := c11Content(orig)
				origSize := orig.Size()
				origDesc := c11Describe(orig)
				descs = append(descs, fmt.Sprintf("limit=%d size=%d %s", limit, origSize, origDesc))
				nd.Eval(func() { nd.gs.sendRPC(pup.ID(), &RPC{RPC: *orig}, urgent) })
				vSettle(50 * time.Millisecond)
				wire := pup.WireSince(w0)
				evs := nd.tr.Since(t0)
				wantCount := map[string]int{}
				alone := map[string]int{}
				for _, e := range want {
					kinds[e.kind] = true
					if origSize < limit || e.alone <= limit {
						wantCount[e.kind+"|"+e.key]++
					} else {
						dropped++
					}
					alone[e.kind+"|"+e.key] = e.alone
				}
				got := map[string]int{}
				for _, w := range wire {
					if w.Size > limit {
						c.Violatef(map[string]string{"kind": "oversize_on_wire"}, "frame of %d bytes > limit %d reached the wire", w.Size, limit)
					}
					el := c11Content(w.RPC)
					if len(el) == 0 {
						c.Violatef(map[string]string{"kind": "empty_on_wire"}, "RPC without content reached the wire (size %d, frame %v); limit=%d urgent=%v original (size %d): %s", w.Size, w.RPC, limit, urgent, origSize, origDesc)
					}
					for _, e := range el {
						got[e.kind+"|"+e.key]++
					}
				}
				if len(wire) > 1 {
					multi++
				}
				for k, nWant := range wantCount {
					if got[k] < nWant {
						c.Violatef(map[string]string{"kind": "lost", "field": c11KindName[k[:1]], "where": "sendRPC"},
							"limit=%d rpc=%s: %s element that fits alone (%d) did not reach the peer (%d of %d)", limit, origDesc, c11KindName[k[:1]], alone[k], got[k], nWant)
					}
				}
				for k, nGot := range got {
					if nGot > wantCount[k] {
						if wantCount[k] == 0 && alone[k] == 0 {
							c.Violatef(map[string]string{"kind": "invented", "where": "sendRPC"}, "element %s not in the original", k[:min(60, len(k))])
						} else if wantCount[k] > 0 {
							c.Violatef(map[string]string{"kind": "duplicated", "field": c11KindName[k[:1]], "where": "sendRPC"}, "%s element arrived %d times, sent %d", c11KindName[k[:1]], nGot, wantCount[k])
						}
					}
				}
				// dropped elements must be reported
				if origSize >= limit {
					for _, e := range want {
						if e.alone <= limit {
							continue
						}
						covered := false
						for _, ev := range evs {
							if ev.Kind != "drop" || ev.RPC == nil {
								continue
							}
							for _, de := range c11Content(&ev.RPC.RPC) {
								if de.kind == e.kind && de.key == e.key {
									covered = true
								}
							}
						}
						if !covered {
							c.Violatef(map[string]string{"kind": "drop_not_reported", "field": c11KindName[e.kind]}, "oversized %s element dropped without DropRPC trace", c11KindName[e.kind])
						}
					}
				}
				// a fragment reported as dropped must not also be on the wire / a sent element must not be reported dropped
				for _, ev := range evs {
					if ev.Kind != "drop" || ev.RPC == nil {
						continue
					}
					for _, de := range c11Content(&ev.RPC.RPC) {
						k := de.kind + "|" + de.key
						if got[k] > 0 && wantCount[k] > 0 && got[k] >= wantCount[k] && de.alone <= limit {
							c.Violatef(map[string]string{"kind": "drop_overreported", "field": c11KindName[de.kind]},
								"limit=%d rpc=%s: %s element was delivered but is also inside a DropRPC trace (retry state may be polluted)", limit, origDesc, c11KindName[de.kind])
						}
					}
				}
				c.Count("rpcs_sent", 1)
				c.Count("frames_on_wire", len(wire))
			}
			pup.mu.Lock()
			ef := pup.emptyFrames
			pup.mu.Unlock()
			if ef > 0 {
				c.Violatef(map[string]string{"kind": "empty_on_wire", "shape": "zero_length_frame"}, "%d zero-length frames reached the wire; rpcs sent: %v", ef, descs)
			}
			c.Count("dropped_oversized_elements", dropped)
			ks := ""
			for _, k := range []string{"M", "S", "G", "P", "H", "W", "D", "X", "R", "T"} {
				if kinds[k] {
					ks += k
				}
			}
			c.Sig(ks, limit/50, multi > 0, dropped > 0)
			c.Nontrivial(multi > 0)
			if c.Idx < 2 {
				c.Sample(map[string]any{"limit": limit, "rounds": rounds, "kinds": ks, "multi_fragment_rounds": multi, "dropped_elements": dropped})
			}
		})
	})
}

var _ = pb.RPC{}
