//go:build verif

package pubsub

// C14 — after shutdown every API call returns and every library goroutine exits.
//
// C14.cancel: one node (router, scoring, discovery, validators drawn by the
// PRNG) with puppets that keep traffic, validations and deliveries in flight;
// 2..5 workers run PRNG scripts over the whole public API concurrently. The
// node's context is cancelled at a drawn point: at a virtual instant, right
// before / concurrently with a worker's k-th call, or from inside a validator.
// The workers then finish their scripts (calls made after cancellation) and a
// fixed post-script calls every API again, twice. Deciding observations:
//   - at bubble quiescence after 60 virtual seconds every worker has returned
//     from the call it was in (otherwise: api_call_blocked, with the call's name),
//   - after the hosts are closed no goroutine with a library frame is left
//     (vLeftover: goroutine_leak with the function it sits in),
//   - no panic on the way (the runner attributes a crashed child to its case).
//
// C14.ctor: constructors that fail (invalid parameters, failing options) must
// not leave goroutines behind once the context is cancelled and the host closed.

import (
	"context"
	"errors"
	"fmt"
	"runtime"
	"sort"
	"strings"
	"sync"
	"sync/atomic"
	"testing"
	"testing/synctest"
	"time"

	pb "github.com/libp2p/go-libp2p-pubsub/pb"
	"github.com/libp2p/go-libp2p/core/discovery"
	"github.com/libp2p/go-libp2p/core/host"
	"github.com/libp2p/go-libp2p/core/peer"
	discimpl "github.com/libp2p/go-libp2p/p2p/discovery/backoff"
)

// vDisc is an in-memory discovery service: FindPeers returns the peers it was
// given, after a virtual delay.
type vDisc struct {
	mu    sync.Mutex
	peers []peer.AddrInfo
	delay time.Duration
	adv   int
	find  int
}

func (d *vDisc) Advertise(ctx context.Context, ns string, opts ...discovery.Option) (time.Duration, error) {
	d.mu.Lock()
	d.adv++
	dl := d.delay
	d.mu.Unlock()
	select {
	case <-time.After(dl):
	case <-ctx.Done():
		return 0, ctx.Err()
	}
	return time.Minute, nil
}

func (d *vDisc) FindPeers(ctx context.Context, ns string, opts ...discovery.Option) (<-chan peer.AddrInfo, error) {
	d.mu.Lock()
	d.find++
	ps := append([]peer.AddrInfo(nil), d.peers...)
	dl := d.delay
	d.mu.Unlock()
	ch := make(chan peer.AddrInfo, len(ps))
	go func() {
		defer close(ch)
		select {
		case <-time.After(dl):
		case <-ctx.Done():
			return
		}
		for _, p := range ps {
			ch <- p
		}
	}()
	return ch, nil
}

type c14Worker struct {
	id    int
	cur   atomic.Value // string: the call in progress ("" between calls)
	post  atomic.Bool  // the call in progress was issued after cancellation
	calls atomic.Int64
	done  chan struct{}
}

type c14World struct {
	c       *vCase
	nd      *vNode
	r       *vRig
	router  string
	scoring bool
	mu      sync.Mutex
	handles map[string]*Topic
	subs    []*Subscription
	relays  []RelayCancelFunc
	evhs    []*TopicEventHandler
	vals    map[string]bool
	pups    []*vPuppet
	comers  []*vPuppet
	topics  []string
	cancel  func(how string)
	isDown  atomic.Bool
	opCount map[string]int
	valHook func() // called inside validators
}

func (w *c14World) handle(t string) *Topic {
	w.mu.Lock()
	defer w.mu.Unlock()
	return w.handles[t]
}

// c14Ops is the API surface; every entry must return by itself (bounded by the
// node's context or a short virtual timeout of its own).
var c14Ops = []string{
	"join", "subscribe", "pssubscribe", "next", "cancelsub", "relay", "relaycancel", "publish", "publish_ready", "pspublish", "batch",
	"regval", "unregval", "evh", "nextevt", "evhcancel", "listpeers", "tlistpeers", "gettopics", "blacklist", "direct", "undirect",
	"topicclose", "setscore", "feedback", "publish_local", "pattach", "pdetach",
}

func (w *c14World) do(op string, rnd func(int) int) {
	ps := w.nd.ps
	t := w.topics[rnd(len(w.topics))]
	h := w.handle(t)
	pick := func(n int) int {
		if n == 0 {
			return -1
		}
		return rnd(n)
	}
	switch op {
	case "join":
		if nh, err := ps.Join(t); err == nil {
			w.mu.Lock()
			w.handles[t] = nh
			w.mu.Unlock()
		}
	case "subscribe":
		if h == nil {
			return
		}
		if s, err := h.Subscribe(); err == nil && s != nil {
			w.mu.Lock()
			w.subs = append(w.subs, s)
			w.mu.Unlock()
		}
	case "pssubscribe":
		if s, err := ps.Subscribe(t); err == nil && s != nil {
			w.mu.Lock()
			w.subs = append(w.subs, s)
			w.mu.Unlock()
		}
	case "next":
		w.mu.Lock()
		i := pick(len(w.subs))
		var s *Subscription
		if i >= 0 {
			s = w.subs[i]
		}
		w.mu.Unlock()
		if s != nil {
			ctx, cancel := context.WithTimeout(w.nd.ctx, 150*time.Millisecond)
			s.Next(ctx)
			cancel()
		}
	case "cancelsub":
		w.mu.Lock()
		i := pick(len(w.subs))
		var s *Subscription
		if i >= 0 {
			s = w.subs[i]
			if rnd(4) > 0 {
				w.subs = append(w.subs[:i:i], w.subs[i+1:]...)
			}
		}
		w.mu.Unlock()
		if s != nil {
			s.Cancel()
		}
	case "relay":
		if h == nil {
			return
		}
		if rc, err := h.Relay(); err == nil && rc != nil {
			w.mu.Lock()
			w.relays = append(w.relays, rc)
			w.mu.Unlock()
		}
	case "relaycancel":
		w.mu.Lock()
		i := pick(len(w.relays))
		var rc RelayCancelFunc
		if i >= 0 {
			rc = w.relays[i]
			if rnd(4) > 0 {
				w.relays = append(w.relays[:i:i], w.relays[i+1:]...)
			}
		}
		w.mu.Unlock()
		if rc != nil {
			rc()
		}
	case "publish":
		if rnd(4) == 0 {
			h = w.handle("ready")
		}
		if h != nil {
			h.Publish(context.Background(), []byte(fmt.Sprintf("w-%d", rnd(1<<30))))
		}
	case "publish_local":
		if h != nil {
			h.Publish(context.Background(), []byte(fmt.Sprintf("l-%d", rnd(1<<30))), WithLocalPublication(true))
		}
	case "publish_ready":
		// Publish holds the topic's read lock while it polls for readiness on a (virtual) ticker. A goroutine
		// waiting for that lock is not durably blocked, so a bubble's clock would stand still: these publishes
		// go to a topic of their own, on which nothing takes the write lock (Close, SetScoreParams).
		if rh := w.handle("ready"); rh != nil {
			if rnd(3) == 0 {
				// the caller's context never ends and the topic never gets that many peers: only the node's own
				// context can end this call (it is in progress at cancellation, or refused after it)
				rh.Publish(context.Background(), []byte(fmt.Sprintf("r-%d", rnd(1<<30))), WithReadiness(MinTopicSize(50)))
				return
			}
			ctx, cancel := context.WithTimeout(context.Background(), time.Second)
			rh.Publish(ctx, []byte(fmt.Sprintf("r-%d", rnd(1<<30))), WithReadiness(MinTopicSize(rnd(4))))
			cancel()
		}
	case "pspublish":
		ps.Publish(t, []byte(fmt.Sprintf("p-%d", rnd(1<<30))))
	case "batch":
		if h == nil {
			return
		}
		var mb MessageBatch
		for i, k := 0, 1+rnd(3); i < k; i++ {
			h.AddToBatch(context.Background(), &mb, []byte(fmt.Sprintf("b-%d", rnd(1<<30))))
		}
		ps.PublishBatch(&mb)
	case "regval":
		mode := rnd(4)
		hook := w.valHook
		vt := t
		if rnd(4) == 0 {
			vt = "ready"
		}
		self := w.nd.ID()
		fn := func(ctx context.Context, from peer.ID, m *Message) ValidationResult {
			if hook != nil {
				hook()
			}
			if from == self && vt != "ready" {
				// local publications are validated under the topic's read lock: a validator that waits on the
				// (virtual) clock there stalls the bubble as soon as Close / SetScoreParams queue for the write
				// lock. Slow local validation is exercised on the topic nothing write-locks.
				return ValidationAccept
			}
			switch mode {
			case 0:
				return ValidationAccept
			case 1:
				select {
				case <-time.After(80 * time.Millisecond):
				case <-ctx.Done():
					return ValidationIgnore
				}
				return ValidationAccept
			case 2:
				<-ctx.Done() // a validator that only gives up with its context
				return ValidationIgnore
			}
			return ValidationReject
		}
		if rnd(5) == 0 {
			fn = c14DeafValidator(hook)
		}
		vopts := []ValidatorOpt{WithValidatorInline(rnd(3) == 0)}
		if rnd(2) == 0 {
			vopts = append(vopts, WithValidatorTimeout(500*time.Millisecond))
		}
		ps.RegisterTopicValidator(vt, fn, vopts...)
	case "unregval":
		if rnd(4) == 0 {
			t = "ready"
		}
		ps.UnregisterTopicValidator(t)
	case "evh":
		if h == nil {
			return
		}
		if eh, err := h.EventHandler(); err == nil && eh != nil {
			w.mu.Lock()
			w.evhs = append(w.evhs, eh)
			w.mu.Unlock()
		}
	case "nextevt":
		w.mu.Lock()
		i := pick(len(w.evhs))
		var eh *TopicEventHandler
		if i >= 0 {
			eh = w.evhs[i]
		}
		w.mu.Unlock()
		if eh != nil {
			ctx, cancel := context.WithTimeout(w.nd.ctx, 100*time.Millisecond)
			eh.NextPeerEvent(ctx)
			cancel()
		}
	case "evhcancel":
		w.mu.Lock()
		i := pick(len(w.evhs))
		var eh *TopicEventHandler
		if i >= 0 {
			eh = w.evhs[i]
			if rnd(4) > 0 {
				w.evhs = append(w.evhs[:i:i], w.evhs[i+1:]...)
			}
		}
		w.mu.Unlock()
		if eh != nil {
			eh.Cancel()
		}
	case "listpeers":
		ps.ListPeers(t)
	case "tlistpeers":
		if h != nil {
			h.ListPeers()
		}
	case "gettopics":
		ps.GetTopics()
	case "blacklist":
		// a spare puppet only, the others must keep the traffic up
		ps.BlacklistPeer(w.pups[len(w.pups)-1].ID())
	case "direct":
		ps.AddDirectPeer(peer.AddrInfo{ID: w.pups[rnd(len(w.pups))].ID()})
	case "undirect":
		ps.RemoveDirectPeer(w.pups[rnd(len(w.pups))].ID())
	case "topicclose":
		if h != nil {
			if err := h.Close(); err == nil {
				w.mu.Lock()
				if w.handles[t] == h {
					delete(w.handles, t)
				}
				w.mu.Unlock()
			}
		}
	case "setscore":
		if h != nil {
			h.SetScoreParams(&TopicScoreParams{TopicWeight: 1, TimeInMeshWeight: 0.01, TimeInMeshQuantum: time.Second, TimeInMeshCap: 10,
				InvalidMessageDeliveriesWeight: -1, InvalidMessageDeliveriesDecay: 0.5})
		}
	case "pattach", "pdetach":
		// two puppets come and go during the run (stream opening and closing interleaves with everything else)
		p := w.comers[rnd(len(w.comers))]
		if op == "pattach" {
			if w.r.n.ConnectNoWait(p.ID(), w.nd.ID()) == nil {
				time.Sleep(time.Duration(rnd(30)) * time.Millisecond)
				if _, err := p.Open(w.nd.ID()); err == nil {
					// (a write into an in-memory stream whose other end has gone away can block: bounded)
					p.SendRawTimeout(w.nd.ID(), vFrame(mustMarshal(vSubRPC(true, t))), 200*time.Millisecond)
				}
			}
		} else {
			w.r.n.Disconnect(w.nd.ID(), p.ID())
			p.ForgetStreams()
		}
	case "feedback":
		ps.PeerFeedback(t, w.pups[rnd(len(w.pups))].ID(), PeerFeedbackKind(rnd(2)))
	}
}

func TestVerifC14Cancel(t *testing.T) {
	vRun(t, "C14.cancel", vCount(400, 8000), func(c *vCase) {
		c.Bubble(func() {
			router := []string{"floodsub", "randomsub", "gossipsub", "gossipsub"}[c.Intn(4)]
			r := vNewRig(c)
			w := &c14World{c: c, r: r, router: router, handles: map[string]*Topic{}, vals: map[string]bool{}, topics: []string{"a", "b", "c"}, opCount: map[string]int{}}
			var opts []Option
			nP := c.Range(2, 5)
			for i := 0; i < nP; i++ {
				pr := FloodSubID
				if router == "gossipsub" {
					pr = vAllGossipProtos[c.Intn(len(vAllGossipProtos))]
				}
				w.pups = append(w.pups, r.NewPuppet(fmt.Sprintf("p%d", i), pr, ""))
			}
			for i := 0; i < 2; i++ {
				pr := FloodSubID
				if router == "gossipsub" {
					pr = vAllGossipProtos[c.Intn(len(vAllGossipProtos))]
				}
				w.comers = append(w.comers, r.NewPuppet(fmt.Sprintf("comer%d", i), pr, ""))
			}
			withDisc := c.Chance(0.4)
			var disc *vDisc
			if withDisc {
				disc = &vDisc{delay: time.Duration(c.Range(0, 300)) * time.Millisecond}
				for _, p := range w.pups {
					disc.peers = append(disc.peers, peer.AddrInfo{ID: p.ID()})
				}
				opts = append(opts, WithDiscovery(disc))
			}
			if router == "gossipsub" {
				p := vFastParams()
				p.HeartbeatInterval = time.Duration(c.Range(100, 1000)) * time.Millisecond
				opts = append(opts, WithGossipSubParams(p))
				if c.Chance(0.5) {
					w.scoring = true
					opts = append(opts, WithPeerScore(&PeerScoreParams{AppSpecificScore: func(peer.ID) float64 { return 0 }, DecayInterval: time.Second, DecayToZero: 0.01,
						Topics: map[string]*TopicScoreParams{}},
						&PeerScoreThresholds{GossipThreshold: -1, PublishThreshold: -2, GraylistThreshold: -3, AcceptPXThreshold: 1, OpportunisticGraftThreshold: 1}))
				}
				if c.Chance(0.3) {
					opts = append(opts, WithPeerGater(NewPeerGaterParams(0.33, ScoreParameterDecay(2*time.Minute), ScoreParameterDecay(10*time.Minute))))
				}
				if c.Chance(0.3) {
					opts = append(opts, WithDirectPeers([]peer.AddrInfo{{ID: w.pups[0].ID()}}), WithDirectConnectTicks(2))
				}
			}
			if c.Chance(0.3) {
				opts = append(opts, WithValidateQueueSize(c.Range(1, 4)), WithValidateThrottle(c.Range(1, 4)))
			}
			if c.Chance(0.3) {
				opts = append(opts, WithPeerOutboundQueueSize(c.Range(1, 3)))
			}
			if c.Chance(0.5) {
				// a default validator next to the topic validators the workers register: a message then runs through the
				// several-validators path of the pipeline (contexts, result channel and throttle of its own)
				opts = append(opts, WithDefaultValidator(func(context.Context, peer.ID, *Message) ValidationResult { return ValidationAccept }))
			}
			if err := r.Start(router, opts...); err != nil {
				c.Inconclusive("node: %v", err)
				return
			}
			w.nd = r.nd
			torn := false
			teardown := func() {
				if !torn {
					torn = true
					r.Close()
				}
			}
			defer teardown()
			var cancelHow atomic.Value
			var cancelOnce sync.Once
			w.cancel = func(how string) {
				cancelOnce.Do(func() {
					cancelHow.Store(how)
					w.isDown.Store(true)
					w.nd.cancel()
				})
			}
			for _, p := range w.pups[:len(w.pups)-1] {
				if err := r.Attach(p, c.Chance(0.5)); err != nil {
					continue
				}
				for _, tn := range w.topics {
					if c.Chance(0.7) {
						p.Send(w.nd.ID(), vSubRPC(true, tn))
					}
				}
			}
			if rh, err := w.nd.ps.Join("ready"); err == nil {
				w.handles["ready"] = rh
			}
			vSettle(20 * time.Millisecond)

			// ---- the plan (drawn up front: workers only consume their own slices)
			W := c.Range(2, 5)
			type step struct {
				op    string
				pause time.Duration
				seed  uint64
			}
			plans := make([][]step, W)
			total := 0
			for i := range plans {
				// every worker starts by joining and subscribing so that the other calls have something to act on
				plans[i] = append(plans[i], step{op: "join", seed: uint64(i)}, step{op: "subscribe", seed: uint64(i)})
				for j, L := 0, c.Range(6, 30); j < L; j++ {
					plans[i] = append(plans[i], step{op: c14Ops[c.Intn(len(c14Ops))], pause: time.Duration(c.Intn(40)) * time.Millisecond, seed: c.R.Uint64()})
				}
				total += len(plans[i])
			}
			mode := []string{"at_time", "before_call", "during_call", "in_validator", "at_time", "in_tracer", "in_tracer", "loop_busy", "loop_busy"}[c.Intn(9)]
			cancelWorker, cancelStep := c.Intn(W), 0
			cancelStep = c.Intn(len(plans[cancelWorker]))
			cancelAt := time.Duration(c.Range(0, 900)) * time.Millisecond
			alignHB := c.Chance(0.4)
			burst := c.Chance(0.3)
			if mode == "in_validator" {
				n := int64(c.Range(1, 6))
				var seen atomic.Int64
				w.valHook = func() {
					if seen.Add(1) == n {
						w.cancel("in_validator")
					}
				}
				// make sure a validator exists early
				plans[0] = append([]step{{op: "regval", seed: 1}}, plans[0]...)
			}
			if mode == "in_tracer" {
				// from inside a raw-tracer callback, i.e. inside the event loop (or a validation goroutine) at the very point
				// where the library reports a new stream, a closed stream, a join, a delivery, ...
				kind := []string{"newout", "newout", "closedout", "join", "leave", "deliver", "validate", "recv", "send", "graft", "reject"}[c.Intn(11)]
				n := int64(c.Range(1, 4))
				var seen atomic.Int64
				hook := func(k string) {
					if k == kind && seen.Add(1) == n {
						w.cancel("in_tracer:" + kind)
					}
				}
				w.nd.tr.hook.Store(&hook)
				plans[0] = append([]step{{op: "pattach", seed: 7}}, plans[0]...)
			}
			// ---- background traffic from the puppets (keeps validations and deliveries in flight)
			trafficCtx, stopTraffic := context.WithCancel(context.Background())
			var tw sync.WaitGroup
			senders := w.pups[:len(w.pups)-1]
			type sendPlan struct {
				topic string
				gap   time.Duration
			}
			for pi, p := range senders {
				var sp []sendPlan
				for k, K := 0, c.Range(10, 60); k < K; k++ {
					sp = append(sp, sendPlan{w.topics[c.Intn(len(w.topics))], time.Duration(c.Range(1, 60)) * time.Millisecond})
				}
				tw.Add(1)
				go func(pi int, p *vPuppet, sp []sendPlan) {
					defer tw.Done()
					for k, s := range sp {
						select {
						case <-time.After(s.gap):
						case <-trafficCtx.Done():
							return
						}
						m := vSignedMsg(p.key, s.topic, vSeqno(uint64(k+1)), []byte(fmt.Sprintf("%s-%d", p.name, k)))
						p.SendRawTimeout(w.nd.ID(), vFrame(mustMarshal(vMsgRPC(m))), 200*time.Millisecond)
					}
				}(pi, p, sp)
			}
			// ---- the workers
			workers := make([]*c14Worker, W)
			var opMu sync.Mutex
			for i := range workers {
				wk := &c14Worker{id: i, done: make(chan struct{})}
				wk.cur.Store("")
				workers[i] = wk
				go func(wk *c14Worker, plan []step) {
					defer close(wk.done)
					for k, s := range plan {
						if s.pause > 0 {
							time.Sleep(s.pause)
						}
						rng := s.seed
						rnd := func(n int) int {
							rng = rng*6364136223846793005 + 1442695040888963407
							return int((rng >> 33) % uint64(n))
						}
						if wk.id == cancelWorker && k == cancelStep {
							switch mode {
							case "before_call":
								w.cancel("before_call:" + s.op)
							case "during_call":
								go w.cancel("during_call:" + s.op)
							}
						}
						wk.post.Store(w.isDown.Load())
						wk.cur.Store(s.op)
						w.do(s.op, rnd)
						wk.cur.Store("")
						wk.calls.Add(1)
						opMu.Lock()
						w.opCount[s.op]++
						opMu.Unlock()
					}
				}(wk, plans[i])
			}
			if mode == "loop_busy" {
				// The event loop is kept busy (a thunk that waits for a channel: no virtual time has to pass) while 4..16 further
				// callers each start one call, most of them the tear-down kind; the context is cancelled, then the loop is let
				// go: it finds the queued requests and the cancellation ready at the same moment, whichever it serves first.
				if cancelAt > 0 {
					time.Sleep(cancelAt)
				}
				release, held := make(chan struct{}), make(chan struct{})
				w.nd.ps.eval <- func() { close(held); <-release }
				<-held
				B := c.Range(4, 16)
				// (a third of these cases: nothing but calls that hand a request over and then wait for the loop's answer)
				storm := c.Chance(0.33)
				if storm {
					B = 16
				}
				for i := 0; i < B; i++ {
					op := c14Ops[c.Intn(len(c14Ops))]
					if storm {
						op = []string{"listpeers", "listpeers", "tlistpeers", "gettopics"}[c.Intn(4)]
					} else if c.Chance(0.6) {
						op = []string{"relaycancel", "relaycancel", "cancelsub", "evhcancel", "topicclose", "unregval", "relay", "subscribe", "join",
							"listpeers", "listpeers", "tlistpeers", "gettopics", "blacklist"}[c.Intn(14)]
					}
					seed := c.R.Uint64()
					wk := &c14Worker{id: 100 + i, done: make(chan struct{})}
					wk.cur.Store(op)
					workers = append(workers, wk)
					go func() {
						defer close(wk.done)
						rng := seed
						rnd := func(n int) int {
							rng = rng*6364136223846793005 + 1442695040888963407
							return int((rng >> 33) % uint64(n))
						}
						w.do(op, rnd)
						wk.cur.Store("")
						wk.calls.Add(1)
					}()
				}
				for i := 0; i < 300*B; i++ {
					runtime.Gosched()
				}
				if !storm && c.Chance(0.5) {
					w.cancel("loop_busy")
					close(release)
				} else {
					// the loop starts serving the queued requests and the cancellation lands among them: some calls have
					// handed their request over and wait for the answer at that moment
					// (every processor is kept busy meanwhile, so that a caller whose request the loop has just taken does not get
					// to run at once: more calls sit between hand-over and answer when the cancellation lands)
					var stopSpin atomic.Bool
					var spin sync.WaitGroup
					if storm {
						for i, k := 0, 2*runtime.GOMAXPROCS(0); i < k; i++ {
							spin.Add(1)
							go func() {
								defer spin.Done()
								for !stopSpin.Load() {
									runtime.Gosched()
								}
							}()
						}
					}
					close(release)
					for i, k := 0, c.Intn(40); i < k; i++ {
						runtime.Gosched()
					}
					w.cancel("loop_busy_released_first")
					stopSpin.Store(true)
					spin.Wait()
				}
			}
			if mode == "at_time" {
				if alignHB && w.nd.gs != nil {
					// exactly on a heartbeat tick
					cancelAt = r.hb0 + time.Duration(c.Range(0, 5))*r.hb - time.Since(r.born)
				}
				if cancelAt > 0 {
					time.Sleep(cancelAt)
				}
				if burst {
					// many validations in flight whose verdict arrives after the shutdown
					for _, tn := range w.topics {
						w.nd.ps.RegisterTopicValidator(tn, c14DeafValidator(nil))
					}
					for pi, p := range senders {
						for k := 0; k < 30; k++ {
							m := vSignedMsg(p.key, w.topics[k%len(w.topics)], vSeqno(uint64(1000000+k)), []byte(fmt.Sprintf("burst-%d-%d", pi, k)))
							p.SendRawTimeout(w.nd.ID(), vFrame(mustMarshal(vMsgRPC(m))), 200*time.Millisecond)
						}
					}
					time.Sleep(5 * time.Millisecond)
				}
				w.cancel("at_time")
			}
			// the scripts are at most 32 steps of <= 40 ms pause plus calls bounded by ~1 s each
			time.Sleep(60 * time.Second)
			synctest.Wait()
			w.cancel("after_scripts") // in_validator mode may never have fired
			time.Sleep(10 * time.Second)
			synctest.Wait()
			how, _ := cancelHow.Load().(string)
			stuck := func(ws []*c14Worker) bool {
				bad := false
				for _, wk := range ws {
					select {
					case <-wk.done:
					default:
						op, _ := wk.cur.Load().(string)
						phase := "in_progress_at_cancel"
						if wk.post.Load() {
							phase = "issued_after_cancel"
						}
						c.Violatef(map[string]string{"check": "api_call_blocked", "op": op, "phase": phase},
							"worker %d is still inside %s (%s) 70 virtual seconds after the context was cancelled (%s); router=%s discovery=%v\n%s",
							wk.id, op, phase, how, router, withDisc, c14StackOf(op))
						bad = true
					}
				}
				if bad {
					c.leftover = true // the blocked callers stay in the bubble; they are reported above
				}
				return bad
			}
			if stuck(workers) {
				stopTraffic()
				return
			}
			// ---- the post-script: every API again, twice, after cancellation
			post := &c14Worker{id: 99, done: make(chan struct{})}
			post.cur.Store("")
			post.post.Store(true)
			go func() {
				defer close(post.done)
				rng := uint64(12345)
				rnd := func(n int) int {
					rng = rng*6364136223846793005 + 1442695040888963407
					return int((rng >> 33) % uint64(n))
				}
				for round := 0; round < 2; round++ {
					for _, op := range c14Ops {
						post.cur.Store(op)
						w.do(op, rnd)
						post.cur.Store("")
						post.calls.Add(1)
					}
				}
				// the queue between Subscribe and the discovery loop holds 32 requests
				if withDisc {
					for i := 0; i < 40; i++ {
						post.cur.Store("subscribe")
						w.do("subscribe", rnd)
						post.cur.Store("pssubscribe")
						w.do("pssubscribe", rnd)
						post.cur.Store("")
					}
				}
			}()
			time.Sleep(30 * time.Second)
			synctest.Wait()
			if stuck([]*c14Worker{post}) {
				stopTraffic()
				return
			}
			stopTraffic()
			tw.Wait()
			// ---- the hosts go away; vLeftover then looks for library goroutines
			teardown()
			time.Sleep(5 * time.Second)
			synctest.Wait()
			calls := int(post.calls.Load())
			for _, wk := range workers {
				calls += int(wk.calls.Load())
			}
			var ops []string
			for op := range w.opCount {
				ops = append(ops, op)
			}
			sort.Strings(ops)
			c.Sig(router, withDisc, w.scoring, mode, len(ops) > 12, mode == "at_time" && burst, mode == "at_time" && alignHB)
			c.State(router, withDisc, how)
			c.Order(how, W)
			c.Nontrivial(calls > 30)
			if c.Idx < 3 {
				c.Sample(map[string]any{"router": router, "discovery": withDisc, "scoring": w.scoring, "workers": W, "cancelled": how, "burst": mode == "at_time" && burst,
					"api_calls": calls, "operations_used": ops})
			}
			c.Count("api_calls", calls)
			c.Count("cancel_"+mode, 1)
			c.Count("post_cancel_calls", int(post.calls.Load()))
			if disc != nil {
				disc.mu.Lock()
				c.Count("discovery_requests", disc.find+disc.adv)
				disc.mu.Unlock()
			}
		})
	})
}

// c14DeafValidator takes its time and accepts, without looking at its context
// (so its verdict arrives after a shutdown that happened meanwhile).
func c14DeafValidator(hook func()) func(context.Context, peer.ID, *Message) ValidationResult {
	return func(ctx context.Context, from peer.ID, m *Message) ValidationResult {
		if hook != nil {
			hook()
		}
		if strings.HasPrefix(string(m.Data), "burst") {
			time.Sleep(80 * time.Millisecond)
		}
		return ValidationAccept
	}
}

func mustMarshal(r *pb.RPC) []byte {
	b, err := r.Marshal()
	if err != nil {
		panic(err)
	}
	return b
}

// c14StackOf returns the stack of a goroutine in this bubble that sits in the
// named API (best effort, for the report).
func c14StackOf(op string) string {
	for _, g := range vGoroutinesInBubble() {
		if strings.Contains(g, "c14World).do") {
			lines := strings.Split(g, "\n")
			if len(lines) > 24 {
				lines = lines[:24]
			}
			return strings.Join(lines, "\n")
		}
	}
	return ""
}

// ---------------------------------------------------------------- C14.ctor

func TestVerifC14Ctor(t *testing.T) {
	vRun(t, "C14.ctor", vCount(150, 2000), func(c *vCase) {
		c.Bubble(func() {
			n := newVNet(c)
			h := n.NewHost("node", "")
			ctx, cancel := context.WithCancel(context.Background())
			boom := errors.New("option failed")
			failing := func(ps *PubSub) error { return boom }
			router := []string{"gossipsub", "gossipsub", "floodsub", "randomsub"}[c.Intn(4)]
			var opts []Option
			kind := c.Intn(8)
			what := ""
			switch kind {
			case 0:
				what = "failing_option_first"
				opts = append(opts, failing)
			case 1:
				what = "failing_option_last"
				opts = append(opts, WithPeerOutboundQueueSize(8), WithValidateQueueSize(4), failing)
			case 2:
				what = "invalid_queue_size"
				opts = append(opts, WithPeerOutboundQueueSize(0))
			case 3:
				what = "invalid_gossipsub_params"
				p := DefaultGossipSubParams()
				p.Dout = p.Dlo + 1
				opts = append(opts, WithGossipSubParams(p))
			case 4:
				what = "invalid_score_params"
				opts = append(opts, WithPeerScore(&PeerScoreParams{}, &PeerScoreThresholds{}))
			case 5:
				what = "failing_after_discovery"
				opts = append(opts, WithDiscovery(&vDisc{}), failing)
			case 7:
				what = "failing_discovery_connector"
				opts = append(opts, WithDiscovery(&vDisc{}, WithDiscoverConnector(func(host.Host) (*discimpl.BackoffConnector, error) { return nil, boom })))
			case 6:
				what = "success" // control: a constructor that succeeds
			}
			var ps *PubSub
			var err error
			switch router {
			case "gossipsub":
				ps, err = NewGossipSub(ctx, h, opts...)
			case "floodsub":
				ps, err = NewFloodSub(ctx, h, opts...)
			case "randomsub":
				ps, err = NewRandomSub(ctx, h, 10, opts...)
			}
			failed := err != nil
			if ps != nil && c.Chance(0.5) {
				if tp, e := ps.Join("t"); e == nil {
					tp.Subscribe()
				}
			}
			vSettle(time.Duration(c.Range(0, 300)) * time.Millisecond)
			cancel()
			n.Close()
			vSettle(0)
			time.Sleep(5 * time.Second)
			synctest.Wait()
			gs := vGoroutinesInBubble()
			for i := 0; i < 4 && len(gs) > 0; i++ {
				time.Sleep(2 * time.Second)
				synctest.Wait()
				gs = vGoroutinesInBubble()
			}
			if len(gs) > 0 {
				c.leftover = true
				fn := "unknown"
				lines := strings.Split(gs[0], "\n")
				if len(lines) > 1 {
					fn = lines[1]
					if j := strings.LastIndex(fn, "("); j > 0 {
						fn = fn[:j]
					}
				}
				c.Violatef(map[string]string{"check": "ctor_goroutine_leak", "where": fn, "router": router, "failed": fmt.Sprint(failed)},
					"%d goroutine(s) survive the context and the host after New%s(%s) returned err=%v:\n%s", len(gs), router, what, err, strings.Join(gs[:min(3, len(gs))], "\n\n"))
				return
			}
			if c.Idx < 3 {
				c.Sample(map[string]any{"router": router, "constructor": what, "failed": failed, "goroutines_left": 0})
			}
			c.Sig(router, what, failed)
			c.State(router, what, failed)
			c.Nontrivial(true)
			c.Count("constructors", 1)
			if failed {
				c.Count("failed_constructors", 1)
			}
		})
	})
}

// C14.handoff — calls that hand a request to the event loop and then wait for its answer, racing with the
// cancellation of the node's context. The loop is held in a thunk while 4..24 callers queue up; then either the
// context is cancelled first and the loop released, or the loop is released and the cancellation lands while it
// is serving the queue (with every processor kept busy in most cases, so that callers whose request has just been
// taken do not run at once). Whichever side leaves first, the other must not wait for it: every call returns and
// the event loop and its helpers exit once the host is closed.
func TestVerifC14Handoff(t *testing.T) {
	ops := []string{"listpeers", "listpeers", "tlistpeers", "gettopics", "blacklist", "regval", "unregval", "relay", "evh", "subscribe", "join", "publish", "direct",
		"relaycancel", "relaycancel", "cancelsub", "evhcancel", "topicclose"}
	vRun(t, "C14.handoff", vCount(1000, 20000), func(c *vCase) {
		c.Bubble(func() {
			n := newVNet(c)
			h := n.NewHost("node", "")
			ctx, cancel := context.WithCancel(context.Background())
			router := []string{"gossipsub", "floodsub", "randomsub"}[c.Intn(3)]
			var ps *PubSub
			var err error
			switch router {
			case "gossipsub":
				ps, err = NewGossipSub(ctx, h)
			case "floodsub":
				ps, err = NewFloodSub(ctx, h)
			case "randomsub":
				ps, err = NewRandomSub(ctx, h, 10)
			}
			if err != nil {
				panic(err)
			}
			tp, err := ps.Join("t")
			if err != nil {
				panic(err)
			}
			if _, err := tp.Subscribe(); err != nil {
				panic(err)
			}
			ps.RegisterTopicValidator("v", func(context.Context, peer.ID, *Message) ValidationResult { return ValidationAccept })
			// things to tear down while the loop is busy
			var relays []RelayCancelFunc
			var subs []*Subscription
			var evhs []*TopicEventHandler
			for i := 0; i < 4; i++ {
				if rc, err := tp.Relay(); err == nil {
					relays = append(relays, rc)
				}
				if s, err := tp.Subscribe(); err == nil {
					subs = append(subs, s)
				}
				if e, err := tp.EventHandler(); err == nil {
					evhs = append(evhs, e)
				}
			}
			tz, err := ps.Join("z")
			if err != nil {
				panic(err)
			}
			vSettle(10 * time.Millisecond)
			release, held := make(chan struct{}), make(chan struct{})
			ps.eval <- func() { close(held); <-release }
			<-held
			type caller struct {
				op   string
				done chan struct{}
			}
			B := c.Range(4, 24)
			queries := c.Chance(0.4)
			var callers []*caller
			mix := map[string]int{}
			for i := 0; i < B; i++ {
				op := ops[c.Intn(len(ops))]
				if queries {
					op = ops[c.Intn(4)]
				}
				mix[op]++
				cl := &caller{op: op, done: make(chan struct{})}
				callers = append(callers, cl)
				k := i
				go func() {
					defer close(cl.done)
					switch cl.op {
					case "listpeers":
						ps.ListPeers("t")
					case "tlistpeers":
						tp.ListPeers()
					case "gettopics":
						ps.GetTopics()
					case "blacklist":
						ps.BlacklistPeer(peer.ID(fmt.Sprintf("somebody-%d", k)))
					case "regval":
						ps.RegisterTopicValidator(fmt.Sprintf("w%d", k), func(context.Context, peer.ID, *Message) ValidationResult { return ValidationAccept })
					case "unregval":
						ps.UnregisterTopicValidator("v")
					case "relay":
						tp.Relay()
					case "evh":
						tp.EventHandler()
					case "subscribe":
						tp.Subscribe()
					case "join":
						ps.Join(fmt.Sprintf("j%d", k))
					case "publish":
						tp.Publish(context.Background(), []byte(fmt.Sprintf("m%d", k)))
					case "direct":
						ps.AddDirectPeer(peer.AddrInfo{ID: peer.ID(fmt.Sprintf("direct-%d", k))})
					case "relaycancel":
						relays[k%len(relays)]()
					case "cancelsub":
						subs[k%len(subs)].Cancel()
					case "evhcancel":
						evhs[k%len(evhs)].Cancel()
					case "topicclose":
						tz.Close()
					}
				}()
			}
			for i := 0; i < 200*B; i++ {
				runtime.Gosched()
			}
			order := "cancel_then_release"
			if c.Chance(0.25) {
				cancel()
				close(release)
			} else {
				order = "release_then_cancel"
				var stopSpin atomic.Bool
				var spin sync.WaitGroup
				if c.Chance(0.7) {
					order = "release_then_cancel_busy_processors"
					for i, k := 0, 2*runtime.GOMAXPROCS(0); i < k; i++ {
						spin.Add(1)
						go func() {
							defer spin.Done()
							for !stopSpin.Load() {
								runtime.Gosched()
							}
						}()
					}
				}
				close(release)
				for i, k := 0, c.Intn(60); i < k; i++ {
					runtime.Gosched()
				}
				cancel()
				stopSpin.Store(true)
				spin.Wait()
			}
			time.Sleep(5 * time.Second)
			synctest.Wait()
			for _, cl := range callers {
				select {
				case <-cl.done:
				default:
					c.leftover = true
					c.Violatef(map[string]string{"check": "api_call_blocked", "op": cl.op, "phase": "in_progress_at_cancel"},
						"router=%s order=%s callers=%v: %s has not returned 5 virtual seconds after the context was cancelled\n%s", router, order, mix, cl.op, c14StackOf(cl.op))
					return
				}
			}
			n.Close()
			vSettle(0)
			time.Sleep(5 * time.Second)
			synctest.Wait()
			gs := vGoroutinesInBubble()
			for i := 0; i < 4 && len(gs) > 0; i++ {
				time.Sleep(2 * time.Second)
				synctest.Wait()
				gs = vGoroutinesInBubble()
			}
			if len(gs) > 0 {
				c.leftover = true
				fn := "unknown"
				lines := strings.Split(gs[0], "\n")
				if len(lines) > 1 {
					fn = lines[1]
					if j := strings.LastIndex(fn, "("); j > 0 {
						fn = fn[:j]
					}
				}
				c.Violatef(map[string]string{"kind": "goroutine_leak", "where": fn},
					"router=%s order=%s callers=%v: %d goroutine(s) survive the context and the host:\n%s", router, order, mix, len(gs), strings.Join(gs[:min(3, len(gs))], "\n\n"))
				return
			}
			c.Sig(router, order, queries, B/6)
			c.State(router, order, queries, B/6)
			c.Nontrivial(true)
			c.Count("calls_in_flight_at_cancel", B)
			c.Count("order:"+order, 1)
			if c.Idx < 2 {
				c.Sample(map[string]any{"router": router, "order": order, "callers": mix})
			}
		})
	})
}
