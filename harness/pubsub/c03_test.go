//go:build verif

package pubsub

// C03 — only authentic messages are accepted under the configured signature
// policy. Validly signed base messages are tampered field by field (singly and
// in pairs); an independent three-valued predicate written from the statement
// says must-reject / must-accept / unspecified; observed at the node's own
// subscription and at an observer peer's wire.

import (
	"context"
	"crypto/rand"
	"crypto/sha256"
	"fmt"
	"sort"
	"strings"
	"sync"
	"testing"
	"time"

	pb "github.com/libp2p/go-libp2p-pubsub/pb"
	"github.com/libp2p/go-libp2p/core/crypto"
	"github.com/libp2p/go-libp2p/core/peer"
)

var (
	c03RSAOnce sync.Once
	c03RSAKey  crypto.PrivKey
	c03SelfKey crypto.PrivKey // the node's own key in the current case (the adversary model includes a leaked/replayed self identity)
)

func c03RSA() crypto.PrivKey {
	c03RSAOnce.Do(func() {
		k, _, err := crypto.GenerateRSAKeyPair(2048, rand.Reader)
		if err != nil {
			panic(err)
		}
		c03RSAKey = k
	})
	return c03RSAKey
}

func c03ID(k crypto.PrivKey) peer.ID {
	id, err := peer.IDFromPrivateKey(k)
	if err != nil {
		panic(err)
	}
	return id
}

type c03Policy struct {
	name   string
	policy MessageSignaturePolicy
}

var c03Policies = []c03Policy{{"StrictSign", StrictSign}, {"StrictNoSign", StrictNoSign}, {"LaxSign", LaxSign}, {"LaxNoSign", LaxNoSign}}
var c03Authors = []string{"default", "custom_author", "per_publish_key", "no_author"}

// c03Verdict: +1 must accept, -1 must reject, 0 unspecified; class names the rule.
func c03Verdict(mustSign, mustVerify, anonymous bool, m *pb.Message, self peer.ID) (int, string) {
	if peer.ID(m.From) == self {
		return -1, "self_origin"
	}
	hasSig := m.Signature != nil
	switch {
	case mustSign && mustVerify: // strict signing
		if !hasSig {
			return -1, "missing_signature"
		}
		if err := vVerifyMsg(m); err != nil {
			return -1, "invalid_signature"
		}
		return +1, "valid_signature"
	case mustVerify: // strict no-sign
		if hasSig {
			return -1, "unexpected_signature"
		}
		if anonymous && (m.From != nil || m.Seqno != nil || m.Key != nil) {
			return -1, "unexpected_auth_info"
		}
		if m.Key != nil {
			return 0, "unsigned_with_key"
		}
		if m.From != nil {
			if _, err := peer.IDFromBytes(m.From); err != nil {
				return 0, "unsigned_malformed_from"
			}
		}
		return +1, "unsigned"
	default: // lax policies
		if hasSig {
			if err := vVerifyMsg(m); err != nil {
				return -1, "invalid_signature"
			}
			return +1, "valid_signature"
		}
		if mustSign {
			return 0, "unsigned_under_lax_sign"
		}
		if m.From != nil {
			if _, err := peer.IDFromBytes(m.From); err != nil {
				return 0, "unsigned_malformed_from"
			}
		}
		if m.Key != nil {
			return 0, "unsigned_with_key"
		}
		return +1, "unsigned"
	}
}

type c03Tamper struct {
	name string
	f    func(c *vCase, m *pb.Message, other *pb.Message, keys []crypto.PrivKey, self peer.ID)
}

func c03Tampers() []c03Tamper {
	flip := func(b []byte, c *vCase) []byte {
		if len(b) == 0 {
			return []byte{1}
		}
		o := append([]byte(nil), b...)
		o[c.Intn(len(o))] ^= byte(1 << uint(c.Intn(8)))
		return o
	}
	return []c03Tamper{
		{"none", func(c *vCase, m, o *pb.Message, k []crypto.PrivKey, s peer.ID) {}},
		// stripped down to what an anonymous publisher sends, plus at most one authentication field
		{"anonymous_bare", func(c *vCase, m, o *pb.Message, k []crypto.PrivKey, s peer.ID) {
			m.From, m.Seqno, m.Signature, m.Key = nil, nil, nil, nil
		}},
		{"anonymous_plus_seqno", func(c *vCase, m, o *pb.Message, k []crypto.PrivKey, s peer.ID) {
			m.From, m.Signature, m.Key = nil, nil, nil
		}},
		{"anonymous_plus_from", func(c *vCase, m, o *pb.Message, k []crypto.PrivKey, s peer.ID) {
			m.Seqno, m.Signature, m.Key = nil, nil, nil
		}},
		{"anonymous_plus_key", func(c *vCase, m, o *pb.Message, k []crypto.PrivKey, s peer.ID) {
			b, _ := crypto.MarshalPublicKey(k[0].GetPublic())
			m.From, m.Seqno, m.Signature, m.Key = nil, nil, nil, b
		}},
		{"flip_data", func(c *vCase, m, o *pb.Message, k []crypto.PrivKey, s peer.ID) { m.Data = flip(m.Data, c) }},
		{"extend_data", func(c *vCase, m, o *pb.Message, k []crypto.PrivKey, s peer.ID) {
			m.Data = append(append([]byte(nil), m.Data...), 'z')
		}},
		{"retarget_topic", func(c *vCase, m, o *pb.Message, k []crypto.PrivKey, s peer.ID) { t := "u"; m.Topic = &t }},
		{"from_other_author", func(c *vCase, m, o *pb.Message, k []crypto.PrivKey, s peer.ID) {
			m.From = append([]byte(nil), o.From...)
		}},
		{"from_random_id", func(c *vCase, m, o *pb.Message, k []crypto.PrivKey, s peer.ID) {
			kk, _, _ := crypto.GenerateEd25519Key(vRandReader{c})
			m.From = []byte(c03ID(kk))
		}},
		{"from_garbage", func(c *vCase, m, o *pb.Message, k []crypto.PrivKey, s peer.ID) { m.From = c11Bytes(c, c.Range(1, 40)) }},
		{"from_empty", func(c *vCase, m, o *pb.Message, k []crypto.PrivKey, s peer.ID) { m.From = nil }},
		{"from_self", func(c *vCase, m, o *pb.Message, k []crypto.PrivKey, s peer.ID) { m.From = []byte(s) }},
		{"change_seqno", func(c *vCase, m, o *pb.Message, k []crypto.PrivKey, s peer.ID) { m.Seqno = flip(m.Seqno, c) }},
		{"drop_seqno", func(c *vCase, m, o *pb.Message, k []crypto.PrivKey, s peer.ID) { m.Seqno = nil }},
		{"drop_signature", func(c *vCase, m, o *pb.Message, k []crypto.PrivKey, s peer.ID) { m.Signature = nil }},
		{"corrupt_signature", func(c *vCase, m, o *pb.Message, k []crypto.PrivKey, s peer.ID) { m.Signature = flip(m.Signature, c) }},
		{"empty_signature", func(c *vCase, m, o *pb.Message, k []crypto.PrivKey, s peer.ID) { m.Signature = []byte{} }},
		{"truncate_signature", func(c *vCase, m, o *pb.Message, k []crypto.PrivKey, s peer.ID) {
			if len(m.Signature) > 2 {
				m.Signature = m.Signature[:len(m.Signature)/2]
			}
		}},
		{"swap_signature", func(c *vCase, m, o *pb.Message, k []crypto.PrivKey, s peer.ID) {
			m.Signature = append([]byte(nil), o.Signature...)
		}},
		{"attach_matching_key", func(c *vCase, m, o *pb.Message, k []crypto.PrivKey, s peer.ID) {
			for _, kk := range k {
				if string(c03ID(kk)) == string(m.From) {
					b, _ := crypto.MarshalPublicKey(kk.GetPublic())
					m.Key = b
				}
			}
		}},
		{"attach_other_key", func(c *vCase, m, o *pb.Message, k []crypto.PrivKey, s peer.ID) {
			for _, kk := range k {
				if string(c03ID(kk)) != string(m.From) {
					b, _ := crypto.MarshalPublicKey(kk.GetPublic())
					m.Key = b
					return
				}
			}
		}},
		{"drop_key", func(c *vCase, m, o *pb.Message, k []crypto.PrivKey, s peer.ID) { m.Key = nil }},
		{"garbage_key", func(c *vCase, m, o *pb.Message, k []crypto.PrivKey, s peer.ID) { m.Key = c11Bytes(c, c.Range(1, 50)) }},
		{"resign_wrong_key", func(c *vCase, m, o *pb.Message, k []crypto.PrivKey, s peer.ID) {
			for _, kk := range k {
				if string(c03ID(kk)) != string(m.From) {
					x := *m
					x.Signature, x.Key = nil, nil
					b, _ := x.Marshal()
					sig, _ := kk.Sign(append([]byte("libp2p-pubsub:"), b...))
					m.Signature = sig
					return
				}
			}
		}},
		{"resign_wrong_key_attached", func(c *vCase, m, o *pb.Message, k []crypto.PrivKey, s peer.ID) {
			for _, kk := range k {
				if string(c03ID(kk)) != string(m.From) {
					x := *m
					x.Signature, x.Key = nil, nil
					b, _ := x.Marshal()
					sig, _ := kk.Sign(append([]byte("libp2p-pubsub:"), b...))
					m.Signature = sig
					kb, _ := crypto.MarshalPublicKey(kk.GetPublic())
					m.Key = kb
					return
				}
			}
		}},
		{"sign_without_prefix", func(c *vCase, m, o *pb.Message, k []crypto.PrivKey, s peer.ID) {
			for _, kk := range k {
				if string(c03ID(kk)) == string(m.From) {
					x := *m
					x.Signature, x.Key = nil, nil
					b, _ := x.Marshal()
					sig, _ := kk.Sign(b)
					m.Signature = sig
				}
			}
		}},
		{"add_unknown_field", func(c *vCase, m, o *pb.Message, k []crypto.PrivKey, s peer.ID) {
			m.XXX_unrecognized = append(append([]byte(nil), m.XXX_unrecognized...), 0x7a, 2, byte(c.Intn(256)), byte(c.Intn(256)))
		}},
		{"resign_correctly", func(c *vCase, m, o *pb.Message, k []crypto.PrivKey, s peer.ID) {
			for _, kk := range k {
				if string(c03ID(kk)) == string(m.From) {
					vSign(kk, m)
				}
			}
		}},
		{"unknown_field_then_resign", func(c *vCase, m, o *pb.Message, k []crypto.PrivKey, s peer.ID) {
			m.XXX_unrecognized = append(append([]byte(nil), m.XXX_unrecognized...), 0x7a, 1, byte(c.Intn(256)))
			for _, kk := range k {
				if string(c03ID(kk)) == string(m.From) {
					vSign(kk, m)
				}
			}
		}},
		{"forge_as_self_signed", func(c *vCase, m, o *pb.Message, k []crypto.PrivKey, s peer.ID) {
			m.From = []byte(s)
			vSign(c03SelfKey, m)
		}},
		{"forge_as_self_signed_with_key", func(c *vCase, m, o *pb.Message, k []crypto.PrivKey, s peer.ID) {
			m.From = []byte(s)
			vSign(c03SelfKey, m)
			kb, _ := crypto.MarshalPublicKey(c03SelfKey.GetPublic())
			m.Key = kb
		}},
		{"strip_all_auth", func(c *vCase, m, o *pb.Message, k []crypto.PrivKey, s peer.ID) {
			m.From, m.Seqno, m.Signature, m.Key = nil, nil, nil, nil
		}},
		{"strip_sig_and_key", func(c *vCase, m, o *pb.Message, k []crypto.PrivKey, s peer.ID) { m.Signature, m.Key = nil, nil }},
		{"random_fields", func(c *vCase, m, o *pb.Message, k []crypto.PrivKey, s peer.ID) {
			switch c.Intn(4) {
			case 0:
				m.From = c11Bytes(c, c.Range(0, 60))
			case 1:
				m.Signature = c11Bytes(c, c.Range(0, 100))
			case 2:
				m.Key = c11Bytes(c, c.Range(0, 100))
			default:
				m.Seqno = c11Bytes(c, c.Range(0, 12))
			}
		}},
	}
}

func c03Clone(m *pb.Message) *pb.Message {
	b, _ := m.Marshal()
	o := &pb.Message{}
	if err := o.Unmarshal(b); err != nil {
		panic(err)
	}
	return o
}

func TestVerifC03Sign(t *testing.T) {
	tampers := c03Tampers()
	type cfg struct {
		pol    c03Policy
		author string
		order  int
	}
	var cfgs []cfg
	for _, p := range c03Policies {
		for _, a := range c03Authors {
			for o := 0; o < 2; o++ {
				cfgs = append(cfgs, cfg{p, a, o})
			}
		}
	}
	vRun(t, "C03.sign", func(tier string) int {
		if tier == "thorough" {
			return len(cfgs) * 800
		}
		return len(cfgs) * 12
	}, func(c *vCase) {
		cf := cfgs[c.Idx%len(cfgs)]
		c.Bubble(func() {
			r := vNewRig(c)
			defer r.Close()
			X := r.NewPuppet("X", FloodSubID, "")
			O := r.NewPuppet("O", FloodSubID, "")
			a1 := r.n.genKey(false) // Ed25519: key extractable from the ID
			a2 := c03RSA()          // RSA: key must be attached
			keys := []crypto.PrivKey{a1, a2}
			custom := r.n.genKey(false)
			if c.Chance(0.5) {
				custom = a2
			}
			idfn := func(m *pb.Message) string { b, _ := m.Marshal(); h := sha256.Sum256(b); return string(h[:]) }
			polOpt := WithMessageSignaturePolicy(cf.pol.policy)
			var authOpt Option
			switch cf.author {
			case "custom_author":
				authOpt = WithMessageAuthor(c03ID(custom))
			case "no_author":
				authOpt = WithNoAuthor()
			}
			opts := []Option{WithMessageIdFn(idfn)}
			// a quarter of the cases keep the validation pipeline saturated (one worker held by a gate message, a queue
			// of one filled by another) while the judged message arrives: a full queue may drop it, never wave it through
			busy := c.Chance(0.25)
			if busy {
				opts = append(opts, WithValidateQueueSize(1), WithValidateWorkers(1))
			}
			if authOpt == nil {
				opts = append(opts, polOpt)
			} else if cf.order == 0 {
				opts = append(opts, polOpt, authOpt)
			} else {
				opts = append(opts, authOpt, polOpt)
			}
			// what the option sequence must amount to
			effPolicy := cf.pol.policy
			anonymous := false
			if cf.author == "no_author" {
				anonymous = true
				if cf.order == 0 {
					effPolicy &^= msgSigning // WithNoAuthor disables signing
				}
			}
			mustSign, mustVerify := effPolicy&msgSigning != 0, effPolicy&msgVerification != 0
			h := r.n.NewHost("node", "")
			if cf.author == "custom_author" {
				h.Peerstore().AddPrivKey(c03ID(custom), custom)
				h.Peerstore().AddPubKey(c03ID(custom), custom.GetPublic())
			}
			ctx, cancel := context.WithCancel(context.Background())
			defer cancel()
			tr := &vTrace{}
			router := "floodsub"
			var ps *PubSub
			var err error
			all := append([]Option{WithRawTracer(tr)}, opts...)
			// (a failing gossipsub constructor leaves the router's address-book goroutine behind; that
			// is C14's business, so the refusal case uses floodsub)
			if c.Chance(0.3) && !(cf.pol.policy&msgSigning != 0 && cf.author == "no_author" && cf.order == 1) {
				router = "gossipsub"
				ps, err = NewGossipSub(ctx, h, all...)
			} else {
				ps, err = NewFloodSub(ctx, h, all...)
			}
			desc := fmt.Sprintf("policy=%s author=%s option_order=%d router=%s", cf.pol.name, cf.author, cf.order, router)
			if mustSign && anonymous {
				// signing demanded but no author: the constructor must refuse
				if err == nil {
					c.Violatef(map[string]string{"kind": "constructor_accepted_sign_without_author"}, "%s: constructor accepted strict signing without an author", desc)
				}
				c.Count("constructor_refused", 1)
				c.Sig(desc, "ctor")
				c.Nontrivial(true)
				return
			}
			if err != nil {
				c.Violatef(map[string]string{"kind": "constructor_refused"}, "%s: constructor failed: %v", desc, err)
				return
			}
			tr.idf = ps.idGen.ID
			self := h.ID()
			c03SelfKey = h.key
			var mu sync.Mutex
			localGot := map[string]bool{}
			var gate chan struct{}
			var gateMu sync.Mutex
			if busy {
				ps.RegisterTopicValidator("g", func(ctx context.Context, from peer.ID, m *Message) ValidationResult {
					if strings.HasPrefix(string(m.Data), "gate") {
						gateMu.Lock()
						g := gate
						gateMu.Unlock()
						if g != nil {
							<-g
						}
					}
					return ValidationAccept
				}, WithValidatorInline(true))
				defer func() {
					gateMu.Lock()
					if gate != nil {
						close(gate)
						gate = nil
					}
					gateMu.Unlock()
				}()
			}
			for _, tn := range []string{"t", "u", "g"} {
				sub, err := ps.Subscribe(tn)
				if err != nil {
					panic(err)
				}
				go func() {
					for {
						m, err := sub.Next(ctx)
						if err != nil {
							return
						}
						mu.Lock()
						localGot[string(vMsgBytes(m.Message))] = true
						mu.Unlock()
					}
				}()
			}
			for _, p := range []*vPuppet{X, O} {
				r.n.Connect(p.ID(), self)
				vSettle(20 * time.Millisecond)
				if _, err := p.Open(self); err != nil {
					c.Inconclusive("open: %v", err)
					return
				}
				p.Send(self, vSubRPC(true, "t", "u", "g"))
			}
			vSettle(50 * time.Millisecond)
			classes := map[string]int{}
			seq := uint64(c.Range(1, 1000))
			base := func(k crypto.PrivKey) *pb.Message {
				seq++
				return vSignedMsg(k, "t", vSeqno(seq), []byte(fmt.Sprintf("payload-%d-%s", seq, strings.Repeat("p", c.Intn(3)*60))))
			}
			sentBytes := map[string]bool{}
			nVariants := c.Range(25, 50)
			for v := 0; v < nVariants && !c.Violated(); v++ {
				k := keys[c.Intn(2)]
				m := base(k)
				other := base(keys[c.Intn(2)])
				t1 := tampers[c.Intn(len(tampers))]
				names := []string{t1.name}
				t1.f(c, m, other, keys, self)
				if c.Chance(0.35) {
					t2 := tampers[c.Intn(len(tampers))]
					t2.f(c, m, other, keys, self)
					names = append(names, t2.name)
				}
				// what goes on the wire is what the node decodes: judge the decoded form
				wire := c03Clone(m)
				// a bit flipped in the payload's digits can reproduce the bytes of another variant of this case: the node
				// would (rightly) treat that one as a duplicate
				if sentBytes[string(vMsgBytes(wire))] {
					classes["same_bytes_as_earlier_variant"]++
					continue
				}
				sentBytes[string(vMsgBytes(wire))] = true
				verdict, class := c03Verdict(mustSign, mustVerify, anonymous, wire, self)
				saturated := busy && c.Chance(0.6)
				if saturated {
					// something that passes the pre-checks of this configuration, so that it reaches the validators of "g"
					mk := func(data string) *pb.Message {
						seq++
						gm := vSignedMsg(k, "g", vSeqno(seq), []byte(data))
						if !mustSign && (mustVerify || anonymous) {
							gm.From, gm.Seqno, gm.Signature, gm.Key = nil, nil, nil, nil
							if !anonymous {
								gm.From, gm.Seqno = []byte(c03ID(k)), vSeqno(seq)
							}
						}
						return gm
					}
					gateMu.Lock()
					gate = make(chan struct{})
					gateMu.Unlock()
					X.Send(self, vMsgRPC(mk(fmt.Sprintf("gate-%d", v))))
					vSettle(5 * time.Millisecond)
					X.Send(self, vMsgRPC(mk(fmt.Sprintf("filler-%d", v))))
					vSettle(5 * time.Millisecond)
					names = append(names, "while_validation_saturated")
				}
				omark := O.WireLen()
				tmark := tr.Len()
				if err := X.Send(self, vMsgRPC(m)); err != nil {
					c.Inconclusive("send: %v", err)
					return
				}
				vSettle(30 * time.Millisecond)
				if saturated {
					gateMu.Lock()
					close(gate)
					gate = nil
					gateMu.Unlock()
					vSettle(30 * time.Millisecond)
					classes["saturated"]++
				}
				wb := string(vMsgBytes(wire))
				mu.Lock()
				loc := localGot[wb]
				mu.Unlock()
				fwd, fwdAltered := false, false
				for _, wr := range O.WireSince(omark) {
					for _, fm := range wr.RPC.Publish {
						if string(vMsgBytes(fm)) == wb {
							fwd = true
						} else if string(fm.Data) == string(wire.Data) {
							fwdAltered = true
						}
					}
				}
				var reasons []string
				for _, e := range tr.Since(tmark) {
					if e.Kind == "reject" {
						reasons = append(reasons, e.Reason)
					}
				}
				detail := fmt.Sprintf("%s: tamper=%v author_key=%s class=%s: delivered=%v forwarded=%v forwarded_altered=%v reject_reasons=%v busy=%v variant=%d", desc, names, k.Type(), class, loc, fwd, fwdAltered, reasons, busy, v)
				c.Logf("variant %d %v data=%q verdict=%+d class=%s delivered=%v forwarded=%v altered=%v reasons=%v wire_since=%d", v, names, string(wire.Data), verdict, class, loc, fwd, fwdAltered, reasons, len(O.WireSince(omark)))
				switch verdict {
				case -1:
					if loc || fwd || fwdAltered {
						c.Violatef(map[string]string{"kind": "inauthentic_accepted", "class": class, "policy": cf.pol.name}, "%s", detail)
					}
					okReason := len(reasons) > 0
					for _, rs := range reasons {
						switch rs {
						case RejectMissingSignature, RejectInvalidSignature, RejectUnexpectedSignature, RejectUnexpectedAuthInfo, RejectSelfOrigin:
						case RejectValidationQueueFull:
							okReason = okReason && saturated
						default:
							okReason = false
						}
					}
					if !okReason && !(loc || fwd) {
						c.Violatef(map[string]string{"kind": "reject_reason", "class": class}, "%s", detail)
					}
				case +1:
					if saturated {
						// an authentic message may be dropped by a full queue; only its integrity when forwarded is judged
						if fwdAltered {
							c.Violatef(map[string]string{"kind": "forward_altered"}, "%s", detail)
						}
						break
					}
					if !loc || !fwd {
						c.Violatef(map[string]string{"kind": "authentic_refused", "class": class, "policy": cf.pol.name}, "%s", detail)
					}
					if fwdAltered {
						c.Violatef(map[string]string{"kind": "forward_altered"}, "%s", detail)
					}
				}
				classes[fmt.Sprintf("%s/%+d", class, verdict)]++
				c.Count("variants", 1)
			}
			// ---- outbound: what the node itself publishes must satisfy the rule at a correct receiver
			if !c.Violated() {
				omark := O.WireLen()
				var pubOpts []PubOpt
				if cf.author == "per_publish_key" {
					pubOpts = append(pubOpts, WithSecretKeyAndPeerId(custom, c03ID(custom)))
				}
				tp, err := ps.Join("out")
				if err != nil {
					panic(err)
				}
				O.Send(self, vSubRPC(true, "out"))
				vSettle(30 * time.Millisecond)
				outData := "outbound" + strings.Repeat("o", c.Intn(3)*70)
				perr := tp.Publish(ctx, []byte(outData), pubOpts...)
				vSettle(30 * time.Millisecond)
				var out []*pb.Message
				for _, wr := range O.WireSince(omark) {
					for _, fm := range wr.RPC.Publish {
						if string(fm.Data) == outData {
							out = append(out, fm)
						}
					}
				}
				od := fmt.Sprintf("%s: own publication err=%v copies=%d", desc, perr, len(out))
				// a per-publish key signs even when the policy forbids signatures: the node must then refuse its own message
				wantErr := cf.author == "per_publish_key" && mustVerify && !mustSign
				if (perr != nil) != wantErr {
					c.Violatef(map[string]string{"kind": "outbound_publish_result"}, "%s: want error=%v", od, wantErr)
				}
				if perr == nil && len(out) == 0 {
					c.Violatef(map[string]string{"kind": "outbound_not_sent"}, "%s: publish succeeded but the observer got nothing", od)
				}
				if perr != nil && len(out) > 0 {
					c.Violatef(map[string]string{"kind": "failed_publish_left_node"}, "%s", od)
				}
				for _, fm := range out {
					author := peer.ID(fm.From)
					switch {
					case anonymous && cf.author != "per_publish_key":
						if fm.From != nil || fm.Seqno != nil || fm.Signature != nil || fm.Key != nil {
							c.Violatef(map[string]string{"kind": "outbound_anonymous_has_auth"}, "%s: anonymous publication carries from/seqno/signature/key", od)
						}
					case mustSign || cf.author == "per_publish_key":
						if err := vVerifyMsg(fm); err != nil {
							c.Violatef(map[string]string{"kind": "outbound_unverifiable"}, "%s: %v", od, err)
						}
						pk, _ := author.ExtractPublicKey()
						if (pk == nil) != (fm.Key != nil) {
							c.Violatef(map[string]string{"kind": "outbound_key_presence"}, "%s: key attached=%v but extractable=%v", od, fm.Key != nil, pk != nil)
						}
					default:
						if fm.Signature != nil {
							c.Violatef(map[string]string{"kind": "outbound_signed_under_nosign"}, "%s: carries a signature", od)
						}
					}
					if v, class := c03Verdict(mustSign, mustVerify, anonymous, fm, "someone-else"); v < 0 {
						c.Violatef(map[string]string{"kind": "outbound_rejected_by_correct_receiver", "class": class}, "%s: a correct receiver with the same policy would reject it (%s)", od, class)
					}
				}
				classes[fmt.Sprintf("outbound/err=%v", perr != nil)]++
			}
			for k, v := range classes {
				c.Count("class:"+k, v)
			}
			var ks []string
			for k := range classes {
				ks = append(ks, k)
			}
			sort.Strings(ks)
			c.Sig(desc, strings.Join(ks, ","))
			c.Nontrivial(len(ks) >= 3)
			if c.Idx < 3 {
				c.Sample(map[string]any{"config": desc, "variants": nVariants, "classes": classes})
			}
			cancel()
			vSettle(10 * time.Millisecond)
		})
	})
}
