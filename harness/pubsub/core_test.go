//go:build verif

package pubsub

// Case runner shared by every monitor (DESIGN.md 2.5).
//
// A monitor is a function of a *vCase. The list of cases is a pure function of
// (property, tier, VERIF_SEED): a fixed count per tier; case i gets the
// sub-seed hash(seed, property, i). The child process appends "CASE i" to
// cases.log before running a case and one JSON line per finished case to
// results.jsonl, so that a crash (panic in a library goroutine, leaked
// goroutine in a synctest bubble) is attributable to a case and the python
// runner can restart the shard behind it.

import (
	"bytes"
	"crypto/sha256"
	"encoding/binary"
	"encoding/hex"
	"encoding/json"
	"fmt"
	"github.com/libp2p/go-libp2p/core/peer"
	"hash/fnv"
	"io"
	"log/slog"
	mrand "math/rand"
	rand2 "math/rand/v2"
	"os"
	"path/filepath"
	"runtime"
	"runtime/debug"
	"sort"
	"strconv"
	"strings"
	"sync"
	"testing"
	"testing/synctest"
	"time"
)

type vViolation struct {
	Cause  map[string]string `json:"cause"`
	Detail string            `json:"detail"`
}

type vResult struct {
	Prop         string         `json:"prop"`
	Idx          int            `json:"i"`
	Seed         uint64         `json:"seed"`
	Verdict      string         `json:"verdict"` // held | violated | inconclusive | harness_error
	Sig          string         `json:"sig,omitempty"`
	Nontrivial   bool           `json:"nontrivial"`
	Violations   []vViolation   `json:"violations,omitempty"`
	Inconclusive string         `json:"inconclusive,omitempty"`
	Counts       map[string]int `json:"counts,omitempty"`
	States       []string       `json:"states,omitempty"`
	Orders       []string       `json:"orders,omitempty"`
	Sample       any            `json:"sample,omitempty"`
	Log          []string       `json:"log,omitempty"`
	WallMs       int64          `json:"wall_ms"`
}

type vCase struct {
	Prop string
	Idx  int
	Seed uint64
	Tier string
	R    *rand2.Rand
	T    *testing.T

	mu     sync.Mutex
	res    vResult
	log    []string
	states map[string]struct{}
	orders map[string]struct{}
	full   bool // keep the whole event log in the result (replay mode)

	leftover bool
}

func vSubSeed(seed uint64, prop string, i int) uint64 {
	h := sha256.New()
	var b [8]byte
	binary.LittleEndian.PutUint64(b[:], seed)
	h.Write(b[:])
	h.Write([]byte(prop))
	binary.LittleEndian.PutUint64(b[:], uint64(i))
	h.Write(b[:])
	s := h.Sum(nil)
	return binary.LittleEndian.Uint64(s[:8])
}

// Crumb appends a line to breadcrumbs.log *before* a risky step, so that a
// crash of the child process can be attributed to the exact input.
func (c *vCase) Crumb(format string, args ...any) {
	c.Logf(format, args...)
	if vCrumbs != nil {
		fmt.Fprintf(vCrumbs, "case %d: %s\n", c.Idx, fmt.Sprintf(format, args...))
	}
}

var vCrumbs *os.File

func (c *vCase) Logf(format string, args ...any) {
	c.mu.Lock()
	defer c.mu.Unlock()
	if len(c.log) < 20000 {
		c.log = append(c.log, fmt.Sprintf(format, args...))
	}
}

// Violatef records a violation with a structured cause record (DESIGN.md 7).
func (c *vCase) Violatef(cause map[string]string, format string, args ...any) {
	c.mu.Lock()
	defer c.mu.Unlock()
	if len(c.res.Violations) < 20 {
		c.res.Violations = append(c.res.Violations, vViolation{Cause: cause, Detail: fmt.Sprintf(format, args...)})
	}
}

func (c *vCase) Violated() bool {
	c.mu.Lock()
	defer c.mu.Unlock()
	return len(c.res.Violations) > 0
}

// Stopped reports whether the case already has a verdict other than "held".
func (c *vCase) Stopped() bool {
	c.mu.Lock()
	defer c.mu.Unlock()
	return len(c.res.Violations) > 0 || c.res.Inconclusive != ""
}

func (c *vCase) Inconclusive(format string, args ...any) {
	c.mu.Lock()
	defer c.mu.Unlock()
	if c.res.Inconclusive == "" {
		c.res.Inconclusive = fmt.Sprintf(format, args...)
	}
}

func (c *vCase) Sig(parts ...any) {
	c.mu.Lock()
	defer c.mu.Unlock()
	h := fnv.New64a()
	fmt.Fprint(h, parts...)
	c.res.Sig = strconv.FormatUint(h.Sum64(), 36)
}

func (c *vCase) Nontrivial(b bool) {
	c.mu.Lock()
	defer c.mu.Unlock()
	c.res.Nontrivial = b
}

func (c *vCase) Count(kind string, n int) {
	c.mu.Lock()
	defer c.mu.Unlock()
	if c.res.Counts == nil {
		c.res.Counts = map[string]int{}
	}
	c.res.Counts[kind] += n
}

func vHash(parts ...any) string {
	h := fnv.New64a()
	fmt.Fprint(h, parts...)
	return strconv.FormatUint(h.Sum64(), 36)
}

// State records a (hash of a) distinct observed state; Order a distinct
// order of key events (interleaving).
func (c *vCase) State(parts ...any) {
	c.mu.Lock()
	defer c.mu.Unlock()
	if len(c.states) < 256 {
		c.states[vHash(parts...)] = struct{}{}
	}
}

func (c *vCase) Order(parts ...any) {
	c.mu.Lock()
	defer c.mu.Unlock()
	if len(c.orders) < 64 {
		c.orders[vHash(parts...)] = struct{}{}
	}
}

func (c *vCase) Sample(v any) {
	c.mu.Lock()
	defer c.mu.Unlock()
	c.res.Sample = v
}

// helpers on the case PRNG
func (c *vCase) Intn(n int) int        { return c.R.IntN(n) }
func (c *vCase) Range(lo, hi int) int  { return lo + c.R.IntN(hi-lo+1) }
func (c *vCase) Chance(p float64) bool { return c.R.Float64() < p }
func (c *vCase) Pick(n int) int        { return c.R.IntN(n) }
func (c *vCase) Dur(lo, hi time.Duration) time.Duration {
	if hi <= lo {
		return lo
	}
	return lo + time.Duration(c.R.Int64N(int64(hi-lo)))
}

// Bubble runs f inside a synctest bubble (virtual time). A panic on the
// bubble's root goroutine is recovered and classified; a panic on any other
// goroutine, or goroutines left blocked when f returns, end the process and
// are attributed to this case by the python runner.
func (c *vCase) Bubble(f func()) {
	if raceEnabled {
		// golang/go#78156: synctest + race detector + several Ps crashes the runtime
		prev := runtime.GOMAXPROCS(1)
		defer runtime.GOMAXPROCS(prev)
	}
	defer func() {
		// synctest reports goroutines left blocked in the bubble by panicking in
		// the caller; vLeftover has already recorded them with their stacks
		if r := recover(); r != nil {
			if strings.Contains(fmt.Sprint(r), "blocked goroutines remain") && c.leftover {
				return
			}
			panic(r)
		}
	}()
	synctest.Test(c.T, func(t *testing.T) {
		defer c.recoverPanic()
		func() {
			defer c.recoverPanic()
			f()
		}()
		c.vLeftover()
	})
}

// vLeftover runs at the end of a bubble, after the case has torn everything
// down: any goroutine still in the bubble is a leak. Library goroutines are a
// violation (attributed by their first library frame), anything else is a
// harness error.
func (c *vCase) vLeftover() {
	if c.leftover {
		return // the case has looked at its leftovers itself
	}
	synctest.Wait()
	gs := vGoroutinesInBubble()
	// goroutines that merely sleep (announce retry jitter, mocknet timers) finish on their own
	for i := 0; i < 8 && len(gs) > 0; i++ {
		time.Sleep(2 * time.Second)
		synctest.Wait()
		gs = vGoroutinesInBubble()
	}
	if d := os.Getenv("VERIF_DUMP"); d != "" {
		vDumpAll(d)
	}
	// a mocknet stream whose connection was torn down while it was being opened keeps its transport goroutine for ever;
	// that is the in-memory network's business (no library frame, no harness frame): tolerated, counted
	var rest []string
	for _, g := range gs {
		if strings.Contains(g, "p2p/net/mock.(*stream).transport") && !strings.Contains(g, "go-libp2p-pubsub") {
			c.Count("mocknet_stream_goroutines_left", 1)
			c.leftover = true // the bubble will complain about them; that complaint is expected
			continue
		}
		rest = append(rest, g)
	}
	gs = rest
	if len(gs) == 0 {
		return
	}
	c.leftover = true
	lib := vLibGoroutines(gs)
	if len(lib) > 0 {
		where := "unknown"
		lines := strings.Split(lib[0], "\n")
		for i := 1; i+1 < len(lines); i += 2 {
			fn := strings.TrimPrefix(lines[i], "created by ")
			if strings.HasPrefix(fn, "github.com/libp2p/go-libp2p-pubsub") && !strings.Contains(lines[i+1], "_test.go") {
				if j := strings.LastIndex(fn, "("); j > 0 {
					fn = fn[:j]
				}
				if j := strings.Index(fn, " in goroutine"); j > 0 {
					fn = fn[:j]
				}
				where = fn
				break
			}
		}
		c.Violatef(map[string]string{"kind": "goroutine_leak", "where": where}, "%d library goroutine(s) still alive after shutdown (of %d in the bubble):\n%s", len(lib), len(gs), strings.Join(lib[:min(3, len(lib))], "\n\n"))
		return
	}
	c.mu.Lock()
	c.res.Verdict = "harness_error"
	c.res.Inconclusive = fmt.Sprintf("%d goroutine(s) left in the bubble:\n%s", len(gs), strings.Join(gs[:min(4, len(gs))], "\n\n"))
	c.mu.Unlock()
}

func (c *vCase) recoverPanic() {
	if r := recover(); r != nil {
		st := string(debug.Stack())
		where, lib := vPanicSite(st)
		if lib {
			c.Violatef(map[string]string{"kind": "panic", "where": where}, "panic: %v\n%s", r, st)
		} else {
			c.mu.Lock()
			c.res.Verdict = "harness_error"
			c.res.Inconclusive = fmt.Sprintf("harness panic: %v\n%s", r, st)
			c.mu.Unlock()
		}
	}
}

// vPanicSite finds the innermost frame below the panic and says whether it is
// in the library proper (not a _test.go / harness file).
func vPanicSite(stack string) (string, bool) {
	lines := strings.Split(stack, "\n")
	seenPanic := false
	for i := 0; i+1 < len(lines); i++ {
		l := lines[i]
		if strings.HasPrefix(l, "panic(") {
			seenPanic = true
			continue
		}
		if !seenPanic {
			continue
		}
		if strings.HasPrefix(l, "\t") || strings.HasPrefix(l, "runtime.") || strings.HasPrefix(l, "runtime/") {
			continue
		}
		file := strings.TrimSpace(lines[i+1])
		fn := l
		if j := strings.LastIndex(fn, "("); j > 0 {
			fn = fn[:j]
		}
		if strings.Contains(file, "/go-libp2p-pubsub") || strings.Contains(file, "/repo/") {
			isTest := strings.Contains(file, "_test.go")
			return fn, !isTest
		}
		// first non-runtime frame is in a dependency (protobuf, libp2p):
		// keep looking for the library frame that called it
		for k := i + 2; k+1 < len(lines); k += 2 {
			f2 := strings.TrimSpace(lines[k+1])
			if strings.Contains(f2, "/repo/") {
				fn2 := lines[k]
				if j := strings.LastIndex(fn2, "("); j > 0 {
					fn2 = fn2[:j]
				}
				return fn2, !strings.Contains(f2, "_test.go")
			}
		}
		return fn, false
	}
	return "unknown", false
}

type vEnv struct {
	seed     uint64
	tier     string
	shard    int
	nshard   int
	out      string
	only     int
	start    int
	limit    int
	haveOnly bool
}

func vGetenv() vEnv {
	e := vEnv{seed: 1, tier: "quick", nshard: 1, only: -1}
	if s := os.Getenv("VERIF_SEED"); s != "" {
		if v, err := strconv.ParseInt(s, 10, 64); err == nil {
			e.seed = uint64(v)
		}
	}
	if s := os.Getenv("VERIF_TIER"); s == "thorough" {
		e.tier = "thorough"
	}
	if s := os.Getenv("VERIF_SHARD"); s != "" {
		fmt.Sscanf(s, "%d/%d", &e.shard, &e.nshard)
		if e.nshard < 1 {
			e.nshard = 1
		}
	}
	e.out = os.Getenv("VERIF_OUT")
	if s := os.Getenv("VERIF_ONLY"); s != "" {
		if v, err := strconv.Atoi(s); err == nil {
			e.only = v
			e.haveOnly = true
		}
	}
	if s := os.Getenv("VERIF_START"); s != "" {
		e.start, _ = strconv.Atoi(s)
	}
	if s := os.Getenv("VERIF_LIMIT"); s != "" {
		e.limit, _ = strconv.Atoi(s)
	}
	return e
}

var vSilenceOnce sync.Once

// vRun executes the case list of one monitor. n(tier) is the number of cases.
func vRun(t *testing.T, prop string, n func(tier string) int, fn func(c *vCase)) {
	e := vGetenv()
	vSilenceOnce.Do(func() {
		if os.Getenv("VERIF_VERBOSE") == "" {
			slog.SetDefault(slog.New(slog.NewTextHandler(io.Discard, nil)))
		}
	})
	total := n(e.tier)
	if e.limit > 0 && e.limit < total {
		total = e.limit
	}
	var casesLog, results *os.File
	if e.out != "" {
		os.MkdirAll(e.out, 0o755)
		var err error
		casesLog, err = os.OpenFile(filepath.Join(e.out, "cases.log"), os.O_APPEND|os.O_CREATE|os.O_WRONLY, 0o644)
		if err != nil {
			t.Fatal(err)
		}
		defer casesLog.Close()
		results, err = os.OpenFile(filepath.Join(e.out, "results.jsonl"), os.O_APPEND|os.O_CREATE|os.O_WRONLY, 0o644)
		if err != nil {
			t.Fatal(err)
		}
		defer results.Close()
		fmt.Fprintf(casesLog, "BEGIN %s total=%d shard=%d/%d start=%d\n", prop, total, e.shard, e.nshard, e.start)
		vCrumbs, _ = os.OpenFile(filepath.Join(e.out, "breadcrumbs.log"), os.O_APPEND|os.O_CREATE|os.O_WRONLY, 0o644)
		defer func() {
			if vCrumbs != nil {
				vCrumbs.Close()
				vCrumbs = nil
			}
		}()
	}
	ran := 0
	for i := 0; i < total; i++ {
		if e.haveOnly {
			if i != e.only {
				continue
			}
		} else if i%e.nshard != e.shard || i < e.start {
			continue
		}
		sub := vSubSeed(e.seed, prop, i)
		c := &vCase{Prop: prop, Idx: i, Seed: sub, Tier: e.tier, T: t,
			R:      rand2.New(rand2.NewPCG(sub, sub^0x9e3779b97f4a7c15)),
			states: map[string]struct{}{}, orders: map[string]struct{}{}, full: e.haveOnly}
		c.res = vResult{Prop: prop, Idx: i, Seed: sub}
		// the library draws from the global math/rand stream; children run with
		// GODEBUG=randseednop=0 so that this pins it per case
		mrand.Seed(int64(sub))
		if casesLog != nil {
			fmt.Fprintf(casesLog, "CASE %d\n", i)
		}
		t0 := time.Now()
		stallDone := make(chan struct{})
		go vStallWatch(i, stallDone)
		func() {
			defer c.recoverPanic()
			fn(c)
		}()
		close(stallDone)
		c.res.WallMs = time.Since(t0).Milliseconds()
		c.finish()
		ran++
		if results != nil {
			b, err := json.Marshal(&c.res)
			if err != nil {
				b, _ = json.Marshal(map[string]any{"prop": prop, "i": i, "verdict": "harness_error", "inconclusive": "marshal: " + err.Error()})
			}
			results.Write(append(b, '\n'))
		} else if c.res.Verdict != "held" {
			b, _ := json.MarshalIndent(&c.res, "", " ")
			t.Logf("case %d: %s", i, b)
			if c.res.Verdict == "violated" {
				t.Fail()
			}
		}
	}
	if casesLog != nil {
		fmt.Fprintf(casesLog, "DONE %s ran=%d\n", prop, ran)
	}
}

func (c *vCase) finish() {
	c.mu.Lock()
	defer c.mu.Unlock()
	r := &c.res
	switch {
	case r.Verdict == "harness_error":
	case len(r.Violations) > 0:
		r.Verdict = "violated"
	case r.Inconclusive != "":
		r.Verdict = "inconclusive"
	default:
		r.Verdict = "held"
	}
	for s := range c.states {
		r.States = append(r.States, s)
	}
	sort.Strings(r.States)
	for s := range c.orders {
		r.Orders = append(r.Orders, s)
	}
	sort.Strings(r.Orders)
	if r.Verdict == "violated" || r.Verdict == "harness_error" || c.full {
		r.Log = c.log
		if len(r.Log) > 4000 {
			r.Log = append(append([]string{}, r.Log[:500]...), r.Log[len(r.Log)-3500:]...)
		}
	}
}

func vCount(q, th int) func(string) int {
	return func(tier string) int {
		if tier == "thorough" {
			// four times the count each monitor was first sized with; VERIF_THOROUGH_MULT scales it further
			m := 4
			if v, err := strconv.Atoi(os.Getenv("VERIF_THOROUGH_MULT")); err == nil && v > 0 {
				m = v
			}
			return m * th
		}
		// the quick tier runs three times the count each monitor was first sized with (it still takes seconds)
		return 3 * q
	}
}

// vGoroutinesInBubble returns the stacks of all goroutines, other than the
// caller, that belong to the caller's synctest bubble.
func vGoroutinesInBubble() []string {
	buf := make([]byte, 1<<20)
	for {
		n := runtime.Stack(buf, true)
		if n < len(buf) {
			buf = buf[:n]
			break
		}
		buf = make([]byte, 2*len(buf))
	}
	gs := bytes.Split(buf, []byte("\n\n"))
	if len(gs) == 0 {
		return nil
	}
	// first goroutine in the dump is the caller
	me := string(gs[0])
	bubble := vBubbleOf(me)
	if bubble == "" {
		return nil
	}
	var out []string
	for _, g := range gs[1:] {
		s := string(g)
		if vBubbleOf(s) == bubble {
			if strings.Contains(s, "testing/synctest.testingSynctestTest") || strings.Contains(s, "internal/synctest.Run") {
				continue // the bubble's own scaffolding
			}
			out = append(out, s)
		}
	}
	return out
}

func vBubbleOf(g string) string {
	nl := strings.IndexByte(g, '\n')
	if nl < 0 {
		nl = len(g)
	}
	hdr := g[:nl]
	i := strings.Index(hdr, "synctest bubble ")
	if i < 0 {
		return ""
	}
	rest := hdr[i+len("synctest bubble "):]
	j := strings.IndexAny(rest, "],")
	if j < 0 {
		return rest
	}
	return rest[:j]
}

// vLibGoroutines filters goroutine stacks to those with a frame in the library
// packages proper (not harness / _test files).
func vLibGoroutines(gs []string) []string {
	var out []string
	for _, g := range gs {
		lines := strings.Split(g, "\n")
		for i := 1; i+1 < len(lines); i += 2 {
			fn, file := lines[i], lines[i+1]
			if strings.HasPrefix(fn, "created by ") {
				fn = strings.TrimPrefix(fn, "created by ")
			}
			if strings.HasPrefix(fn, "github.com/libp2p/go-libp2p-pubsub") && !strings.Contains(file, "_test.go") {
				out = append(out, g)
				break
			}
		}
	}
	return out
}

func vShort(b []byte) string {
	if len(b) > 12 {
		return hex.EncodeToString(b[:12]) + "…"
	}
	return hex.EncodeToString(b)
}

func peerIDOf(id int) peer.ID { return peer.ID(strconv.Itoa(id)) }

func vDumpAll(path string) {
	buf := make([]byte, 8<<20)
	n := runtime.Stack(buf, true)
	os.WriteFile(path, buf[:n], 0o644)
}

// vStallWatch (real time, outside any bubble) looks for the one state a bubble
// cannot get out of: a goroutine of the bubble waiting for a sync.Mutex /
// RWMutex (not a durable block, so virtual time stands still) while every
// other goroutine of the bubble is blocked too. The verdict is the state, seen
// in two dumps three seconds apart with the same goroutines, not the elapsed
// time; the process ends (the runner restarts the shard behind this case).
func vStallWatch(idx int, done chan struct{}) {
	grace := 20 * time.Second
	if raceEnabled {
		grace = 60 * time.Second
	}
	select {
	case <-done:
		return
	case <-time.After(grace):
	}
	prev := ""
	for {
		ids, stacks := vLockWaiters()
		if ids != "" && ids == prev {
			fmt.Printf("fatal error: VERIF-STALL case %d: goroutines wait for a lock that is never released, everything else in the bubble is blocked\n\n%s\n", idx, strings.Join(stacks, "\n\n"))
			os.Stdout.Sync()
			os.Exit(3)
		}
		prev = ids
		select {
		case <-done:
			return
		case <-time.After(3 * time.Second):
		}
	}
}

// vLockWaiters returns the ids and stacks of bubble goroutines waiting for a
// mutex, provided no goroutine of a bubble is running, runnable or in a system
// call (lock waiters first, then the durably blocked library goroutines).
func vLockWaiters() (string, []string) {
	buf := make([]byte, 4<<20)
	for {
		n := runtime.Stack(buf, true)
		if n < len(buf) {
			buf = buf[:n]
			break
		}
		buf = make([]byte, 2*len(buf))
	}
	var ids, waiters, others []string
	for _, g := range strings.Split(string(buf), "\n\n") {
		nl := strings.IndexByte(g, '\n')
		if nl < 0 {
			continue
		}
		hdr := g[:nl]
		if !strings.Contains(hdr, "synctest bubble") {
			continue
		}
		switch {
		case strings.Contains(hdr, "[sync.Mutex.Lock") || strings.Contains(hdr, "[sync.RWMutex.Lock") || strings.Contains(hdr, "[sync.RWMutex.RLock"):
			ids = append(ids, strings.Fields(hdr)[1])
			waiters = append(waiters, g)
		case strings.Contains(hdr, "(durable)"):
			if len(vLibGoroutines([]string{g})) > 0 {
				// likely lock holders first: goroutines of the harness that sit inside a library call
				if strings.Contains(g, "_test.go") {
					others = append([]string{g}, others...)
				} else {
					others = append(others, g)
				}
			}
		default:
			return "", nil // something in the bubble can still run
		}
	}
	if len(waiters) == 0 {
		return "", nil
	}
	sort.Strings(ids)
	if len(others) > 12 {
		others = others[:12]
	}
	return strings.Join(ids, ","), append(waiters, others...)
}
