//go:build verif

package pubsub

// C08 — prune backoff is honoured in both directions. The monitor keeps, per
// (puppet, topic), the latest deadline implied by every PRUNE exchanged (node
// side timestamps: raw-tracer callbacks and the instant an inbound RPC was
// handled) and checks every GRAFT the node puts on a puppet's wire against it;
// inbound GRAFTs during backoff must be refused, penalised and extend the
// backoff; every PRUNE to a >= v1.1 peer must state the applicable period.

import (
	"fmt"
	"sort"
	"strings"
	"testing"
	"time"

	"github.com/libp2p/go-libp2p/core/peer"
)

func TestVerifC08Backoff(t *testing.T) {
	vRun(t, "C08.backoff", vCount(2000, 30000), func(c *vCase) {
		c.Bubble(func() {
			params := gsParams(c)
			if c.Chance(0.6) {
				// keep the mesh hungry so that the node grafts whoever it is allowed to graft
				params.D, params.Dlo, params.Dhi, params.Dscore, params.Dout = 6, 5, 12, 4, 2
			}
			params.PruneBackoff = time.Duration(c.Range(3, 9)) * time.Second
			params.UnsubscribeBackoff = time.Duration(c.Range(1, 4)) * time.Second
			params.GraftFloodThreshold = time.Duration(c.Range(1, int(params.PruneBackoff/time.Second)-1)) * time.Second
			th := PeerScoreThresholds{GossipThreshold: -100, PublishThreshold: -200, GraylistThreshold: -300, AcceptPXThreshold: 1000, OpportunisticGraftThreshold: 1}
			var opts []Option
			smallQ := c.Chance(0.4)
			if smallQ {
				opts = append(opts, WithPeerOutboundQueueSize(c.Range(1, 2)))
			}
			w := gsNewWorld(c, gsConfig{params: params, th: th, scoring: true, nPups: c.Range(3, 8), floodSub: 0, opts: opts})
			if w == nil {
				return
			}
			defer w.Close()
			type key struct {
				p peer.ID
				t string
			}
			dl := map[key]time.Time{}        // deadline
			lastPrune := map[key]time.Time{} // last PRUNE exchanged
			why := map[key]string{}
			classes := map[string]int{}
			fail := func(cause map[string]string, format string, args ...any) {
				h := w.hist
				if len(h) > 50 {
					h = h[len(h)-50:]
				}
				c.Violatef(cause, "PruneBackoff=%v UnsubscribeBackoff=%v GraftFloodThreshold=%v D=%d Dlo=%d Dhi=%d smallQueue=%v: %s\n recent history=%v",
					params.PruneBackoff, params.UnsubscribeBackoff, params.GraftFloodThreshold, params.D, params.Dlo, params.Dhi, smallQ, fmt.Sprintf(format, args...), h)
			}
			extend := func(k key, d time.Time, reason string) {
				if d.After(dl[k]) {
					dl[k] = d
					why[k] = reason
				}
			}
			// One time-ordered pass over the raw-tracer events (node-side timestamps): "prune" callbacks
			// move deadlines, "send" events carry every GRAFT / PRUNE the node handed to a peer's queue.
			traceMark := 0
			hasOut := map[peer.ID]bool{}
			joinedNow := map[string]bool{}
			madeBlind := map[key]bool{}
			absorb := func(ctx string, op *gsOp) {
				evs := w.nd.tr.Since(traceMark)
				traceMark += len(evs)
				opCtx, theOp := ctx, op
				for _, e := range evs {
					// events older than the operation belong to an earlier heartbeat
					ctx, op := opCtx, theOp
					if op != nil && e.T.Before(op.T) {
						ctx, op = "heartbeat", nil
					}
					switch e.Kind {
					case "newout":
						hasOut[e.Peer] = true
					case "closedout":
						delete(hasOut, e.Peer)
					case "join":
						joinedNow[e.Topic] = true
					case "leave":
						delete(joinedNow, e.Topic)
					case "recv":
						// a PRUNE the node accepted for a topic it has joined names the period to obey, whatever the
						// node's own record of that peer says at that moment (crossing PRUNEs, a peer already dropped
						// from the mesh); judged on the receipt itself, not on the router's bookkeeping callback
						if ctx != "prune" || op == nil || op.Before == nil || e.RPC == nil || op.Pup.p.ID() != e.Peer {
							continue
						}
						_, direct := op.Before.Direct[e.Peer]
						if sc, ok := op.Before.Scores[e.Peer]; !direct && (!ok || sc < th.GraylistThreshold+1) {
							continue
						}
						for _, pr := range e.RPC.GetControl().GetPrune() {
							if !joinedNow[pr.GetTopicID()] {
								continue
							}
							d := params.PruneBackoff
							if pr.GetBackoff() > 0 {
								d = time.Duration(pr.GetBackoff()) * time.Second
							}
							extend(key{e.Peer, pr.GetTopicID()}, e.T.Add(d), "pruned by the peer")
							classes["deadline_from_received_prune"]++
						}
					case "prune":
						k := key{e.Peer, e.Topic}
						switch {
						case ctx == "leave" && op != nil && op.Topic == e.Topic:
							extend(k, e.T.Add(params.UnsubscribeBackoff), "left the topic")
							classes["deadline_from_leave"]++
						case ctx == "prune" && op != nil && op.Topic == e.Topic && op.Pup.p.ID() == e.Peer:
							d := params.PruneBackoff
							if op.Arg > 0 {
								d = time.Duration(op.Arg) * time.Second
								classes["deadline_from_stated_backoff"]++
							} else {
								classes["deadline_from_remote_prune"]++
							}
							extend(k, e.T.Add(d), "pruned by the peer")
						default:
							extend(k, e.T.Add(params.PruneBackoff), "pruned by the node")
							classes["deadline_from_heartbeat_prune"]++
						}
						lastPrune[k] = e.T
					case "drop":
						// a PRUNE made while the node had no negotiated stream to the peer (version unknown: it has the v1.0 form)
						// and refused by a full queue is kept for retry as it is
						if e.RPC != nil && !hasOut[e.Peer] {
							for _, pr := range e.RPC.GetControl().GetPrune() {
								if pr.Backoff == nil {
									madeBlind[key{e.Peer, pr.GetTopicID()}] = true
								}
							}
						}
					case "send":
						gp := w.byID[e.Peer]
						if gp == nil || e.RPC == nil {
							continue
						}
						for _, g := range e.RPC.GetControl().GetGraft() {
							k := key{e.Peer, g.GetTopicID()}
							classes["graft_sent"]++
							if d, ok := dl[k]; ok && e.T.Before(d) {
								fail(map[string]string{"kind": "graft_during_backoff", "after": strings.ReplaceAll(why[k], " ", "_")},
									"GRAFT(%s) sent to %s at +%v, %v before the backoff deadline +%v (%s)", k.t, gp.p.name, e.T.Sub(w.r.born), d.Sub(e.T), d.Sub(w.r.born), why[k])
							} else if ok {
								classes["graft_after_deadline"]++
							}
						}
						for _, pr := range e.RPC.GetControl().GetPrune() {
							classes["prune_sent"]++
							want := uint64(params.PruneBackoff / time.Second)
							if ctx == "leave" && op != nil && op.Topic == pr.GetTopicID() {
								want = uint64(params.UnsubscribeBackoff / time.Second)
							}
							if !hasOut[e.Peer] {
								// the node has no negotiated outbound stream (the peer's inbound stream outlived it):
								// it cannot know the peer's version, the statement's premise is not met
								classes["prune_without_negotiated_version"]++
							} else if gp.proto == GossipSubID_v10 {
								if pr.Backoff != nil || len(pr.Peers) > 0 {
									fail(map[string]string{"kind": "prune_backoff_field", "proto": "v1.0"}, "PRUNE to v1.0 peer %s carries v1.1 fields", gp.p.name)
								}
							} else if pr.Backoff == nil && madeBlind[key{e.Peer, pr.GetTopicID()}] {
								// the retry of such a PRUNE: made before the version was known, sent after
								classes["prune_retried_made_without_version"]++
								delete(madeBlind, key{e.Peer, pr.GetTopicID()})
							} else if pr.Backoff == nil || pr.GetBackoff() != want {
								// a PRUNE retried after a drop keeps the period of the event that caused it
								alt := uint64(params.UnsubscribeBackoff / time.Second)
								if smallQ && pr.Backoff != nil && (pr.GetBackoff() == alt || pr.GetBackoff() == uint64(params.PruneBackoff/time.Second)) {
									classes["prune_retried"]++
								} else {
									var life []string
									for _, le := range w.nd.tr.Events() {
										if le.Peer == e.Peer && (le.Kind == "newout" || le.Kind == "closedout") {
											life = append(life, fmt.Sprintf("%s(%s)@+%v", le.Kind, le.Reason, le.T.Sub(w.r.born)))
										}
									}
									fail(map[string]string{"kind": "prune_backoff_field", "proto": ">=v1.1"}, "PRUNE(%s) to %s (%s) states backoff %d (present=%v), want %d s (context %s) at +%v; outbound stream events for that peer: %v",
										pr.GetTopicID(), gp.p.name, gp.proto, pr.GetBackoff(), pr.Backoff != nil, want, ctx, e.T.Sub(w.r.born), life)
								}
							}
						}
					}
				}
			}
			absorbTrace := func(ctx string, op *gsOp) { absorb(ctx, op) }
			scanWire := func(ctx string, op *gsOp) {}
			w.afterOp = func(op *gsOp) {
				absorbTrace(op.Kind, op)
				if op.Kind == "graft" && op.Before != nil && op.After != nil {
					p := op.Pup.p.ID()
					k := key{p, op.Topic}
					b, a := op.Before, op.After
					_, joined := b.Mesh[op.Topic]
					_, inMesh := b.Mesh[op.Topic][p]
					_, direct := b.Direct[p]
					_, known := b.Peers[p]
					d, has := dl[k]
					if joined && !inMesh && !direct && has && op.T.Before(d) {
						classes["inbound_graft_during_backoff"]++
						_, pruned, _ := w.WireCtl(op.Marks, op.Topic)
						if len(pruned[p]) == 0 && known && !smallQ {
							fail(map[string]string{"kind": "backoff_graft_not_refused"}, "GRAFT(%s) from %s %v before its deadline was not answered with PRUNE", op.Topic, op.Pup.p.name, d.Sub(op.T))
						}
						if _, now := a.Mesh[op.Topic][p]; now {
							fail(map[string]string{"kind": "backoff_graft_admitted"}, "GRAFT(%s) from %s %v before its deadline was admitted to the mesh", op.Topic, op.Pup.p.name, d.Sub(op.T))
						}
						if known {
							got := a.BP[p] - b.BP[p]
							want := 1.0
							flood := false
							if lp, ok := lastPrune[k]; ok && op.T.Sub(lp) < params.GraftFloodThreshold {
								want, flood = 2.0, true
							}
							if got != want {
								fail(map[string]string{"kind": "backoff_graft_penalty", "flood": fmt.Sprint(flood), "deadline_from": strings.ReplaceAll(why[k], " ", "_")},
									"GRAFT(%s) from %s during backoff (%v after the last PRUNE, flood threshold %v, deadline set because %s): behaviour penalty rose by %v, want %v",
									op.Topic, op.Pup.p.name, op.T.Sub(lastPrune[k]), params.GraftFloodThreshold, why[k], got, want)
							}
							if flood {
								classes["graft_flood"]++
							}
						}
						extend(k, op.T.Add(params.PruneBackoff), "refused GRAFT")
						lastPrune[k] = op.T
					} else if joined && !inMesh && !direct {
						if _, now := a.Mesh[op.Topic][p]; !now {
							// refused for another reason (negative score, full mesh): the node sent PRUNE and backs off
							extend(k, op.T.Add(params.PruneBackoff), "refused GRAFT")
							lastPrune[k] = op.T
							classes["inbound_graft_refused_other"]++
						} else {
							classes["inbound_graft_admitted"]++
						}
					}
				}
				scanWire(op.Kind, op)
			}
			w.onTick = func(k int, s0, s1 *vGSnap, evs []vEvt, marks []int) {
				absorbTrace("heartbeat", nil)
				scanWire("heartbeat", nil)
				c.Count("heartbeats", 1)
			}
			// stall / unstall ops make control messages hit a full queue
			if smallQ {
				stallOp := func(w *gsWorld) *gsOp {
					gp := w.pups[c.Intn(len(w.pups))]
					op := &gsOp{Kind: "stall", Pup: gp, T: time.Now()}
					if gp.p.stalled {
						gp.p.Unstall()
						op.Kind = "unstall"
					} else {
						gp.p.Stall()
					}
					vSettle(5 * time.Millisecond)
					return op
				}
				w.extraOps = append(w.extraOps, stallOp, stallOp)
			}
			w.Populate(0.9, 0.9)
			if c.Chance(0.85) {
				if s, err := w.handle("t").Subscribe(); err == nil {
					w.subs["t"] = s
				}
			}
			vSettle(5 * time.Millisecond)
			absorbTrace("init", nil)
			scanWire("init", nil)
			w.RunTicks(c.Range(10, 40), 4)
			for _, gp := range w.pups {
				gp.p.Unstall()
			}
			for k, v := range classes {
				c.Count("class:"+k, v)
			}
			var ks []string
			for k := range classes {
				ks = append(ks, k)
			}
			sort.Strings(ks)
			c.Sig(params.PruneBackoff, params.UnsubscribeBackoff, params.GraftFloodThreshold, smallQ, strings.Join(ks, ","))
			c.Nontrivial(classes["graft_after_deadline"] > 0 || classes["inbound_graft_during_backoff"] > 0)
			if c.Idx < 2 {
				h := w.hist
				if len(h) > 30 {
					h = h[:30]
				}
				c.Sample(map[string]any{"prune_backoff": params.PruneBackoff.String(), "unsubscribe_backoff": params.UnsubscribeBackoff.String(),
					"graft_flood_threshold": params.GraftFloodThreshold.String(), "first_ops": h, "classes": classes})
			}
		})
	})
}
