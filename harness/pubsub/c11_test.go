//go:build verif

package pubsub

// C11 — splitting an oversized RPC loses nothing and respects the size limit.
// Monitor (a): (*RPC).split driven directly with generated RPCs carrying every
// field, at every interesting limit; oracle = canonical content multiset.
// Monitor (b) is in c11b_test.go (sendRPC end to end against puppets).

import (
	"encoding/hex"
	"fmt"
	"sort"
	"strings"
	"testing"

	pb "github.com/libp2p/go-libp2p-pubsub/pb"
)

type c11Elem struct {
	kind  string // M S G P H W D X R T
	key   string // canonical payload
	alone int    // size of the smallest RPC that carries just this element
}

func c11Hex(b []byte, err error) string {
	if err != nil {
		panic(err)
	}
	return hex.EncodeToString(b)
}

// c11Content lists the indivisible elements of an RPC.
func c11Content(r *pb.RPC) []c11Elem {
	var out []c11Elem
	for _, m := range r.Publish {
		out = append(out, c11Elem{"M", c11Hex(m.Marshal()), (&pb.RPC{Publish: []*pb.Message{m}}).Size()})
	}
	for _, s := range r.Subscriptions {
		out = append(out, c11Elem{"S", c11Hex(s.Marshal()), (&pb.RPC{Subscriptions: []*pb.RPC_SubOpts{s}}).Size()})
	}
	if c := r.Control; c != nil {
		for _, g := range c.Graft {
			out = append(out, c11Elem{"G", c11Hex(g.Marshal()), (&pb.RPC{Control: &pb.ControlMessage{Graft: []*pb.ControlGraft{g}}}).Size()})
		}
		for _, p := range c.Prune {
			out = append(out, c11Elem{"P", c11Hex(p.Marshal()), (&pb.RPC{Control: &pb.ControlMessage{Prune: []*pb.ControlPrune{p}}}).Size()})
		}
		for _, h := range c.Ihave {
			for _, id := range h.MessageIDs {
				one := &pb.RPC{Control: &pb.ControlMessage{Ihave: []*pb.ControlIHave{{TopicID: h.TopicID, MessageIDs: []string{id}}}}}
				out = append(out, c11Elem{"H", h.GetTopicID() + "|" + hex.EncodeToString([]byte(id)), one.Size()})
			}
		}
		for _, w := range c.Iwant {
			for _, id := range w.MessageIDs {
				one := &pb.RPC{Control: &pb.ControlMessage{Iwant: []*pb.ControlIWant{{MessageIDs: []string{id}}}}}
				out = append(out, c11Elem{"W", hex.EncodeToString([]byte(id)), one.Size()})
			}
		}
		for _, d := range c.Idontwant {
			for _, id := range d.MessageIDs {
				one := &pb.RPC{Control: &pb.ControlMessage{Idontwant: []*pb.ControlIDontWant{{MessageIDs: []string{id}}}}}
				out = append(out, c11Elem{"D", hex.EncodeToString([]byte(id)), one.Size()})
			}
		}
		if c.Extensions != nil {
			out = append(out, c11Elem{"X", c11Hex(c.Extensions.Marshal()), (&pb.RPC{Control: &pb.ControlMessage{Extensions: c.Extensions}}).Size()})
		}
	}
	if r.Partial != nil {
		out = append(out, c11Elem{"R", c11Hex(r.Partial.Marshal()), (&pb.RPC{Partial: r.Partial}).Size()})
	}
	if r.TestExtension != nil {
		out = append(out, c11Elem{"T", c11Hex(r.TestExtension.Marshal()), (&pb.RPC{TestExtension: r.TestExtension}).Size()})
	}
	return out
}

var c11KindName = map[string]string{"M": "publish", "S": "subscription", "G": "graft", "P": "prune", "H": "ihave",
	"W": "iwant", "D": "idontwant", "X": "extensions", "R": "partial", "T": "testExtension"}

func c11Bytes(c *vCase, n int) []byte {
	b := make([]byte, n)
	for i := range b {
		b[i] = byte(c.R.UintN(256))
	}
	return b
}

func c11Str(c *vCase, n int) string {
	const al = "abcdefghijklmnopqrstuvwxyz0123456789"
	b := make([]byte, n)
	for i := range b {
		b[i] = al[c.R.IntN(len(al))]
	}
	return string(b)
}

// c11Len draws an element size: mostly small, sometimes around / above limitHint.
func c11Len(c *vCase, hint int) int {
	switch c.Intn(10) {
	case 0:
		return 0
	case 1:
		return c.Range(hint/2, hint+hint/2+8)
	case 2:
		return c.Range(1, 4)
	default:
		return c.Range(1, 40)
	}
}

func c11Gen(c *vCase, hint int, maxEach int) *pb.RPC {
	r := &pb.RPC{}
	topics := []string{"t", "topic-b", c11Str(c, c.Range(0, 12))}
	cnt := func() int {
		switch c.Intn(4) {
		case 0:
			return 0
		case 1:
			return c.Range(1, 2)
		default:
			return c.Range(0, maxEach)
		}
	}
	pick := func() *string { t := topics[c.Intn(len(topics))]; return &t }
	for i, n := 0, cnt(); i < n; i++ {
		m := &pb.Message{Data: c11Bytes(c, c11Len(c, hint)), Topic: pick()}
		if c.Chance(0.7) {
			m.From = c11Bytes(c, 38)
			m.Seqno = c11Bytes(c, 8)
		}
		if c.Chance(0.5) {
			m.Signature = c11Bytes(c, 64)
		}
		if c.Chance(0.2) {
			m.Key = c11Bytes(c, 36)
		}
		if c.Chance(0.1) {
			// unknown field 15, length delimited
			m.XXX_unrecognized = append([]byte{0x7a, 3}, c11Bytes(c, 3)...)
		}
		r.Publish = append(r.Publish, m)
	}
	for i, n := 0, cnt(); i < n; i++ {
		s := &pb.RPC_SubOpts{Topicid: pick()}
		b := c.Chance(0.5)
		s.Subscribe = &b
		if c.Chance(0.3) {
			x := c.Chance(0.5)
			s.RequestsPartial = &x
		}
		if c.Chance(0.3) {
			x := c.Chance(0.5)
			s.SupportsSendingPartial = &x
		}
		if c.Chance(0.1) {
			t := c11Str(c, c11Len(c, hint))
			s.Topicid = &t
		}
		r.Subscriptions = append(r.Subscriptions, s)
	}
	ctl := &pb.ControlMessage{}
	for i, n := 0, cnt(); i < n; i++ {
		ctl.Graft = append(ctl.Graft, &pb.ControlGraft{TopicID: pick()})
	}
	for i, n := 0, cnt(); i < n; i++ {
		p := &pb.ControlPrune{TopicID: pick()}
		if c.Chance(0.6) {
			b := uint64(c.Range(1, 100000))
			p.Backoff = &b
		}
		for j, k := 0, c.Range(0, 3); j < k; j++ {
			pi := &pb.PeerInfo{PeerID: c11Bytes(c, 38)}
			if c.Chance(0.5) {
				pi.SignedPeerRecord = c11Bytes(c, c11Len(c, hint))
			}
			p.Peers = append(p.Peers, pi)
		}
		ctl.Prune = append(ctl.Prune, p)
	}
	for i, n := 0, c.Range(0, 3); i < n; i++ {
		h := &pb.ControlIHave{TopicID: pick()}
		for j, k := 0, cnt(); j < k; j++ {
			h.MessageIDs = append(h.MessageIDs, string(c11Bytes(c, c11IDLen(c, hint))))
		}
		if len(h.MessageIDs) > 0 {
			ctl.Ihave = append(ctl.Ihave, h)
		}
	}
	for i, n := 0, c.Range(0, 2); i < n; i++ {
		w := &pb.ControlIWant{}
		for j, k := 0, cnt(); j < k; j++ {
			w.MessageIDs = append(w.MessageIDs, string(c11Bytes(c, c11IDLen(c, hint))))
		}
		if len(w.MessageIDs) > 0 {
			ctl.Iwant = append(ctl.Iwant, w)
		}
	}
	for i, n := 0, c.Range(0, 2); i < n; i++ {
		d := &pb.ControlIDontWant{}
		for j, k := 0, cnt(); j < k; j++ {
			d.MessageIDs = append(d.MessageIDs, string(c11Bytes(c, c11IDLen(c, hint))))
		}
		if len(d.MessageIDs) > 0 {
			ctl.Idontwant = append(ctl.Idontwant, d)
		}
	}
	if c.Chance(0.25) {
		e := &pb.ControlExtensions{}
		if c.Chance(0.7) {
			b := true
			e.PartialMessages = &b
		}
		if c.Chance(0.7) {
			b := true
			e.TestExtension = &b
		}
		ctl.Extensions = e
	}
	if ctl.Size() > 0 || c.Chance(0.05) {
		r.Control = ctl
	}
	if c.Chance(0.25) {
		r.Partial = &pb.PartialMessagesExtension{TopicID: pick(), GroupID: c11Bytes(c, c.Range(0, 8)),
			PartialMessage: c11Bytes(c, c11Len(c, hint)), PartsMetadata: c11Bytes(c, c.Range(0, 6))}
	}
	if c.Chance(0.2) {
		r.TestExtension = &pb.TestExtension{}
	}
	return r
}

func c11IDLen(c *vCase, hint int) int {
	switch c.Intn(12) {
	case 0:
		return 0
	case 1:
		return c.Range(hint/2, hint+10)
	default:
		return c.Range(1, 40)
	}
}

// c11Check runs split at one limit and applies the oracle. Returns the number of fragments.
func c11Check(c *vCase, orig *pb.RPC, limit int, where string) int {
	rpc := &RPC{RPC: *orig}
	want := c11Content(orig)
	var frags []pb.RPC
	for f := range rpc.split(limit) {
		frags = append(frags, f.RPC)
	}
	path := "slow"
	np := *orig
	np.Publish = nil
	if np.Size() < limit {
		path = "fast"
	}
	viol := func(cause map[string]string, format string, args ...any) {
		cause["path"] = path
		cause["where"] = where
		c.Violatef(cause, "limit=%d size=%d frags=%d: %s\nrpc=%s", limit, orig.Size(), len(frags),
			fmt.Sprintf(format, args...), c11Describe(orig))
	}
	wantCount := map[string]int{}
	aloneOf := map[string]int{}
	for _, e := range want {
		wantCount[e.kind+"|"+e.key]++
		aloneOf[e.kind+"|"+e.key] = e.alone
	}
	gotCount := map[string]int{}
	var gotMsgs, wantMsgs []string
	for _, e := range want {
		if e.kind == "M" {
			wantMsgs = append(wantMsgs, e.key)
		}
	}
	for i := range frags {
		f := &frags[i]
		elems := c11Content(f)
		if len(elems) == 0 {
			first := "none"
			if len(want) > 0 {
				first = c11KindName[want[0].kind]
			}
			viol(map[string]string{"kind": "empty_fragment", "first_elem": first}, "fragment %d of %d is empty (Size=%d)", i, len(frags), f.Size())
		}
		if sz := f.Size(); sz > limit {
			if len(elems) != 1 {
				viol(map[string]string{"kind": "oversize_fragment"}, "fragment %d has Size %d > limit with %d elements", i, sz, len(elems))
			} else if elems[0].alone <= limit {
				viol(map[string]string{"kind": "oversize_fragment", "field": c11KindName[elems[0].kind]},
					"fragment %d (Size %d) holds one %s element that fits alone (%d)", i, sz, elems[0].kind, elems[0].alone)
			}
		}
		for _, e := range elems {
			gotCount[e.kind+"|"+e.key]++
			if e.kind == "M" {
				gotMsgs = append(gotMsgs, e.key)
			}
		}
	}
	keys := make([]string, 0, len(wantCount))
	for k := range wantCount {
		keys = append(keys, k)
	}
	sort.Strings(keys)
	for _, k := range keys {
		if gotCount[k] < wantCount[k] {
			viol(map[string]string{"kind": "lost", "field": c11KindName[k[:1]]}, "%s element lost (%d of %d present; alone=%d)", c11KindName[k[:1]], gotCount[k], wantCount[k], aloneOf[k])
		} else if gotCount[k] > wantCount[k] {
			viol(map[string]string{"kind": "duplicated", "field": c11KindName[k[:1]]}, "%s element duplicated (%d of %d)", c11KindName[k[:1]], gotCount[k], wantCount[k])
		}
	}
	for k := range gotCount {
		if wantCount[k] == 0 {
			viol(map[string]string{"kind": "invented", "field": c11KindName[k[:1]]}, "element not in the original: %s", k[:min(len(k), 60)])
		}
	}
	if strings.Join(gotMsgs, ",") != strings.Join(wantMsgs, ",") && len(gotMsgs) == len(wantMsgs) {
		viol(map[string]string{"kind": "reordered", "field": "publish"}, "published messages reordered")
	}
	return len(frags)
}

func c11Describe(r *pb.RPC) string {
	n := map[string]int{}
	for _, e := range c11Content(r) {
		n[e.kind]++
	}
	var parts []string
	for _, k := range []string{"M", "S", "G", "P", "H", "W", "D", "X", "R", "T"} {
		if n[k] > 0 {
			parts = append(parts, fmt.Sprintf("%s=%d", c11KindName[k], n[k]))
		}
	}
	return fmt.Sprintf("{size=%d %s}", r.Size(), strings.Join(parts, " "))
}

func c11Limits(c *vCase, size int) []int {
	set := map[int]struct{}{}
	for l := 100; l <= 160; l += 1 + c.Intn(4) {
		set[l] = struct{}{}
	}
	for _, l := range []int{size - 1, size, size + 1, size / 2, size / 3, size + 64} {
		if l >= 100 {
			set[l] = struct{}{}
		}
	}
	for i := 0; i < 6; i++ {
		set[c.Range(100, max(101, size+64))] = struct{}{}
	}
	out := make([]int, 0, len(set))
	for l := range set {
		out = append(out, l)
	}
	sort.Ints(out)
	return out
}

func TestVerifC11Split(t *testing.T) {
	vRun(t, "C11.split", vCount(1500, 60000), func(c *vCase) {
		hint := c.Range(100, 400)
		r := c11Gen(c, hint, c.Range(1, 40))
		limits := c11Limits(c, r.Size())
		kinds := map[string]bool{}
		for _, e := range c11Content(r) {
			kinds[e.kind] = true
		}
		ks := make([]string, 0, len(kinds))
		for k := range kinds {
			ks = append(ks, k)
		}
		sort.Strings(ks)
		multi := 0
		for _, l := range limits {
			n := c11Check(c, r, l, "split")
			c.Count("splits", 1)
			c.Count("fragments", n)
			if n > 1 {
				multi++
			}
		}
		c.Count("splits_multi_fragment", multi)
		c.Sig(strings.Join(ks, ""), r.Size()/64, multi > 0)
		c.Nontrivial(multi > 0 && len(ks) >= 2)
		if c.Idx < 3 {
			c.Sample(map[string]any{"rpc": c11Describe(r), "limits": limits})
		}
	})
}

// Exhaustive small scope: every RPC with at most 2 elements of each of up to 3
// kinds (element sizes from a small set) at 12 limits.
func TestVerifC11Small(t *testing.T) {
	type mk func(sz int) func(*pb.RPC)
	ctl := func(r *pb.RPC) *pb.ControlMessage {
		if r.Control == nil {
			r.Control = &pb.ControlMessage{}
		}
		return r.Control
	}
	topic := "t"
	pad := func(n int) string { return strings.Repeat("x", n) }
	makers := []mk{
		func(sz int) func(*pb.RPC) {
			return func(r *pb.RPC) { r.Publish = append(r.Publish, &pb.Message{Data: []byte(pad(sz)), Topic: &topic}) }
		},
		func(sz int) func(*pb.RPC) {
			return func(r *pb.RPC) {
				tt, b := pad(sz), true
				r.Subscriptions = append(r.Subscriptions, &pb.RPC_SubOpts{Topicid: &tt, Subscribe: &b})
			}
		},
		func(sz int) func(*pb.RPC) {
			return func(r *pb.RPC) { tt := pad(sz); ctl(r).Graft = append(ctl(r).Graft, &pb.ControlGraft{TopicID: &tt}) }
		},
		func(sz int) func(*pb.RPC) {
			return func(r *pb.RPC) {
				b := uint64(60)
				ctl(r).Prune = append(ctl(r).Prune, &pb.ControlPrune{TopicID: &topic, Backoff: &b, Peers: []*pb.PeerInfo{{PeerID: []byte(pad(sz))}}})
			}
		},
		func(sz int) func(*pb.RPC) {
			return func(r *pb.RPC) {
				ctl(r).Ihave = append(ctl(r).Ihave, &pb.ControlIHave{TopicID: &topic, MessageIDs: []string{pad(sz), pad(sz) + "b"}})
			}
		},
		func(sz int) func(*pb.RPC) {
			return func(r *pb.RPC) {
				ctl(r).Iwant = append(ctl(r).Iwant, &pb.ControlIWant{MessageIDs: []string{pad(sz), pad(sz) + "b"}})
			}
		},
		func(sz int) func(*pb.RPC) {
			return func(r *pb.RPC) {
				ctl(r).Idontwant = append(ctl(r).Idontwant, &pb.ControlIDontWant{MessageIDs: []string{pad(sz), pad(sz) + "b"}})
			}
		},
		func(sz int) func(*pb.RPC) {
			return func(r *pb.RPC) { b := true; ctl(r).Extensions = &pb.ControlExtensions{TestExtension: &b} }
		},
		func(sz int) func(*pb.RPC) {
			return func(r *pb.RPC) {
				r.Partial = &pb.PartialMessagesExtension{TopicID: &topic, PartialMessage: []byte(pad(sz))}
			}
		},
		func(sz int) func(*pb.RPC) { return func(r *pb.RPC) { r.TestExtension = &pb.TestExtension{} } },
	}
	sizes := []int{1, 60, 130}
	limits := []int{100, 101, 110, 120, 128, 129, 140, 160, 200, 260, 300, 400}
	// enumerate: choose an ordered triple of kinds (with repetition allowed = fewer kinds), size per kind, count 1..2
	type combo struct{ k [3]int }
	var combos []combo
	nk := len(makers)
	for a := 0; a < nk; a++ {
		for b := a; b < nk; b++ {
			for d := b; d < nk; d++ {
				combos = append(combos, combo{[3]int{a, b, d}})
			}
		}
	}
	vRun(t, "C11.small", func(string) int { return len(combos) }, func(c *vCase) {
		co := combos[c.Idx]
		n := 0
		for s0 := range sizes {
			for s1 := range sizes {
				for s2 := range sizes {
					for cnt := 1; cnt <= 2; cnt++ {
						r := &pb.RPC{}
						for rep := 0; rep < cnt; rep++ {
							makers[co.k[0]](sizes[s0])(r)
							if co.k[1] != co.k[0] {
								makers[co.k[1]](sizes[s1])(r)
							}
							if co.k[2] != co.k[1] {
								makers[co.k[2]](sizes[s2])(r)
							}
						}
						for _, l := range limits {
							c11Check(c, r, l, "small")
							n++
						}
					}
				}
			}
		}
		c.Count("splits", n)
		c.Sig(co.k)
		c.Nontrivial(true)
		if c.Idx == 17 {
			c.Sample(map[string]any{"kinds": co.k, "sizes": sizes, "limits": limits, "splits": n})
		}
	})
}
