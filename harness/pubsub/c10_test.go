//go:build verif

package pubsub

// C10 — peer scores equal the GossipSub v1.1 scoring function of the peer's
// history. peerScore is driven directly (as the repository's score tests do)
// inside a bubble with its real background goroutine and tickers; an
// independently written reference scorer is fed the same events and the same
// virtual clock. Metamorphic monitors (no NaN, counters within [0,cap],
// penalties never raise the score, retention) do not depend on the reference.

import (
	"context"
	"fmt"
	"math"
	"net"
	"sort"
	"strings"
	"testing"
	"testing/synctest"
	"time"

	pb "github.com/libp2p/go-libp2p-pubsub/pb"
	"github.com/libp2p/go-libp2p/core/host"
	"github.com/libp2p/go-libp2p/core/network"
	"github.com/libp2p/go-libp2p/core/peer"
	ma "github.com/multiformats/go-multiaddr"
)

// ---------------------------------------------------------------- stub host for IP assignment

type c10Conn struct {
	network.Conn
	addr ma.Multiaddr
}

func (c *c10Conn) Stat() network.ConnStats       { return network.ConnStats{} }
func (c *c10Conn) RemoteMultiaddr() ma.Multiaddr { return c.addr }

type c10Net struct {
	network.Network
	ips map[peer.ID][]string
}

func (n *c10Net) ConnsToPeer(p peer.ID) []network.Conn {
	var out []network.Conn
	for _, ip := range n.ips[p] {
		var a ma.Multiaddr
		if strings.Contains(ip, ":") {
			a, _ = ma.NewMultiaddr("/ip6/" + ip + "/tcp/1")
		} else {
			a, _ = ma.NewMultiaddr("/ip4/" + ip + "/tcp/1")
		}
		out = append(out, &c10Conn{addr: a})
	}
	return out
}

type c10Host struct {
	host.Host
	n *c10Net
}

func (h *c10Host) Network() network.Network { return h.n }

// ---------------------------------------------------------------- reference scorer (from the v1.1 spec + property text)

type c10T struct {
	inMesh   bool
	graft    time.Time
	meshTime time.Duration // as of the last decay tick
	active   bool
	fmd, mmd float64
	mfp, imd float64
}

type c10P struct {
	connected bool
	expire    time.Time
	topics    map[string]*c10T
	bp        float64
	ips       []string
}

type c10Rec struct {
	status    int // 0 unknown 1 valid 2 invalid 3 ignored 4 throttled
	validated time.Time
	peers     map[peer.ID]bool
	expire    time.Time
}

type c10Ref struct {
	pp     PeerScoreParams
	tp     map[string]TopicScoreParams
	peers  map[peer.ID]*c10P
	recs   map[string]*c10Rec
	ipSet  map[string]map[peer.ID]bool
	app    map[peer.ID]float64
	ttl    time.Duration
	hostIP map[peer.ID][]string
}

func (r *c10Ref) tstats(p peer.ID, topic string) *c10T {
	ps := r.peers[p]
	if ps == nil {
		return nil
	}
	if t := ps.topics[topic]; t != nil {
		return t
	}
	if _, ok := r.tp[topic]; !ok {
		return nil
	}
	t := &c10T{}
	ps.topics[topic] = t
	return t
}

func (r *c10Ref) p6(p peer.ID) float64 {
	ps := r.peers[p]
	if ps == nil {
		return 0
	}
	var res float64
	for _, ip := range ps.ips {
		white := false
		for _, n := range r.pp.IPColocationFactorWhitelist {
			if n.Contains(net.ParseIP(ip)) {
				white = true
			}
		}
		if white {
			continue
		}
		if n := len(r.ipSet[ip]); n > r.pp.IPColocationFactorThreshold {
			s := float64(n - r.pp.IPColocationFactorThreshold)
			res += s * s
		}
	}
	return res
}

func (r *c10Ref) score(p peer.ID) float64 {
	ps := r.peers[p]
	if ps == nil {
		return 0
	}
	var total float64
	for topic, t := range ps.topics {
		tp, ok := r.tp[topic]
		if !ok {
			continue
		}
		var ts float64
		if t.inMesh && tp.TimeInMeshWeight != 0 {
			p1 := float64(t.meshTime / tp.TimeInMeshQuantum)
			if p1 > tp.TimeInMeshCap {
				p1 = tp.TimeInMeshCap
			}
			ts += p1 * tp.TimeInMeshWeight
		}
		ts += t.fmd * tp.FirstMessageDeliveriesWeight
		if t.active && t.mmd < tp.MeshMessageDeliveriesThreshold {
			d := tp.MeshMessageDeliveriesThreshold - t.mmd
			ts += d * d * tp.MeshMessageDeliveriesWeight
		}
		ts += t.mfp * tp.MeshFailurePenaltyWeight
		ts += t.imd * t.imd * tp.InvalidMessageDeliveriesWeight
		total += ts * tp.TopicWeight
	}
	if r.pp.TopicScoreCap > 0 && total > r.pp.TopicScoreCap {
		total = r.pp.TopicScoreCap
	}
	total += r.app[p] * r.pp.AppSpecificWeight
	total += r.p6(p) * r.pp.IPColocationFactorWeight
	if ps.bp > r.pp.BehaviourPenaltyThreshold {
		e := ps.bp - r.pp.BehaviourPenaltyThreshold
		total += e * e * r.pp.BehaviourPenaltyWeight
	}
	return total
}

func (r *c10Ref) setIPs(p peer.ID, ips []string) {
	ps := r.peers[p]
	for _, ip := range ps.ips {
		delete(r.ipSet[ip], p)
		if len(r.ipSet[ip]) == 0 {
			delete(r.ipSet, ip)
		}
	}
	ps.ips = ips
	for _, ip := range ips {
		if r.ipSet[ip] == nil {
			r.ipSet[ip] = map[peer.ID]bool{}
		}
		r.ipSet[ip][p] = true
	}
}

func c10IPs(raw []string) []string {
	var out []string
	for _, s := range raw {
		ip := net.ParseIP(s)
		if ip.IsLoopback() {
			continue
		}
		if ip.To4() != nil {
			out = append(out, ip.String())
		} else {
			out = append(out, ip.String(), ip.Mask(net.CIDRMask(64, 128)).String())
		}
	}
	return out
}

func (r *c10Ref) connect(p peer.ID) {
	ps := r.peers[p]
	if ps == nil {
		ps = &c10P{topics: map[string]*c10T{}}
		r.peers[p] = ps
	}
	ps.connected = true
	r.setIPs(p, c10IPs(r.hostIP[p]))
}

func (r *c10Ref) remove(p peer.ID) {
	r.setIPs(p, nil)
	delete(r.peers, p)
}

func (r *c10Ref) disconnect(p peer.ID, now time.Time) {
	ps := r.peers[p]
	if ps == nil {
		return
	}
	if r.score(p) > 0 {
		r.remove(p)
		return
	}
	for topic, t := range ps.topics {
		t.fmd = 0
		th := r.tp[topic].MeshMessageDeliveriesThreshold
		if t.inMesh && t.active && t.mmd < th {
			d := th - t.mmd
			t.mfp += d * d
		}
		t.inMesh = false
	}
	ps.connected = false
	ps.expire = now.Add(r.pp.RetainScore)
}

func (r *c10Ref) decay(now time.Time) {
	dz := r.pp.DecayToZero
	for p, ps := range r.peers {
		if !ps.connected {
			if now.After(ps.expire) {
				r.remove(p)
			}
			continue
		}
		for topic, t := range ps.topics {
			tp, ok := r.tp[topic]
			if !ok {
				continue
			}
			dec := func(v *float64, f float64) {
				*v *= f
				if *v < dz {
					*v = 0
				}
			}
			dec(&t.fmd, tp.FirstMessageDeliveriesDecay)
			dec(&t.mmd, tp.MeshMessageDeliveriesDecay)
			dec(&t.mfp, tp.MeshFailurePenaltyDecay)
			dec(&t.imd, tp.InvalidMessageDeliveriesDecay)
			if t.inMesh {
				t.meshTime = now.Sub(t.graft)
				if t.meshTime > tp.MeshMessageDeliveriesActivation {
					t.active = true
				}
			}
		}
		ps.bp *= r.pp.BehaviourPenaltyDecay
		if ps.bp < dz {
			ps.bp = 0
		}
	}
}

func (r *c10Ref) gc(now time.Time) {
	for id, rec := range r.recs {
		if now.After(rec.expire) {
			delete(r.recs, id)
		}
	}
}

func (r *c10Ref) refreshIPs() {
	for p, ps := range r.peers {
		if ps.connected {
			r.setIPs(p, c10IPs(r.hostIP[p]))
		}
	}
}

func (r *c10Ref) rec(id string, now time.Time) *c10Rec {
	if x := r.recs[id]; x != nil {
		return x
	}
	x := &c10Rec{peers: map[peer.ID]bool{}, expire: now.Add(r.ttl)}
	r.recs[id] = x
	return x
}

func (r *c10Ref) graft(p peer.ID, topic string, now time.Time) {
	if t := r.tstats(p, topic); t != nil {
		t.inMesh, t.graft, t.meshTime, t.active = true, now, 0, false
	}
}

func (r *c10Ref) prune(p peer.ID, topic string) {
	if t := r.tstats(p, topic); t != nil {
		th := r.tp[topic].MeshMessageDeliveriesThreshold
		if t.active && t.mmd < th {
			d := th - t.mmd
			t.mfp += d * d
		}
		t.inMesh = false
	}
}

func (r *c10Ref) invalid(p peer.ID, topic string) {
	if t := r.tstats(p, topic); t != nil {
		t.imd++
	}
}

func (r *c10Ref) meshDelivery(p peer.ID, topic string) {
	if t := r.tstats(p, topic); t != nil && t.inMesh {
		t.mmd = math.Min(t.mmd+1, r.tp[topic].MeshMessageDeliveriesCap)
	}
}

func (r *c10Ref) deliver(p peer.ID, topic, id string, now time.Time) {
	if t := r.tstats(p, topic); t != nil {
		t.fmd = math.Min(t.fmd+1, r.tp[topic].FirstMessageDeliveriesCap)
		if t.inMesh {
			t.mmd = math.Min(t.mmd+1, r.tp[topic].MeshMessageDeliveriesCap)
		}
	}
	rec := r.rec(id, now)
	if rec.status != 0 {
		return
	}
	rec.status, rec.validated = 1, now
	for q := range rec.peers {
		if q != p {
			r.meshDelivery(q, topic)
		}
	}
}

func (r *c10Ref) reject(p peer.ID, topic, id, reason string, now time.Time) {
	switch reason {
	case RejectMissingSignature, RejectInvalidSignature, RejectUnexpectedSignature, RejectUnexpectedAuthInfo, RejectSelfOrigin:
		r.invalid(p, topic)
		return
	case RejectBlacklstedPeer, RejectBlacklistedSource, RejectValidationQueueFull:
		return
	}
	rec := r.rec(id, now)
	if rec.status != 0 {
		return
	}
	switch reason {
	case RejectValidationThrottled:
		rec.status, rec.peers = 4, nil
		return
	case RejectValidationIgnored:
		rec.status, rec.peers = 3, nil
		return
	}
	rec.status = 2
	r.invalid(p, topic)
	for q := range rec.peers {
		r.invalid(q, topic)
	}
	rec.peers = nil
}

func (r *c10Ref) duplicate(p peer.ID, topic, id string, now time.Time) {
	rec := r.rec(id, now)
	if rec.peers[p] {
		return
	}
	switch rec.status {
	case 0:
		rec.peers[p] = true
	case 1:
		if rec.peers == nil {
			rec.peers = map[peer.ID]bool{}
		}
		rec.peers[p] = true
		if now.Sub(rec.validated) <= r.tp[topic].MeshMessageDeliveriesWindow {
			r.meshDelivery(p, topic)
		}
	case 2:
		r.invalid(p, topic)
	}
}

func (r *c10Ref) setTopicParams(topic string, np TopicScoreParams) {
	old, ok := r.tp[topic]
	r.tp[topic] = np
	if !ok {
		return
	}
	if np.FirstMessageDeliveriesCap < old.FirstMessageDeliveriesCap || np.MeshMessageDeliveriesCap < old.MeshMessageDeliveriesCap {
		for _, ps := range r.peers {
			if t := ps.topics[topic]; t != nil {
				t.fmd = math.Min(t.fmd, np.FirstMessageDeliveriesCap)
				t.mmd = math.Min(t.mmd, np.MeshMessageDeliveriesCap)
			}
		}
	}
}

// ---------------------------------------------------------------- parameter generation

func c10F(c *vCase, vals ...float64) float64 { return vals[c.Intn(len(vals))] }

func c10TopicParams(c *vCase, partial bool) *TopicScoreParams {
	for try := 0; try < 200; try++ {
		tp := &TopicScoreParams{SkipAtomicValidation: partial}
		tp.TopicWeight = c10F(c, 0, 0.5, 1, 3)
		set := func() bool { return !partial || c.Chance(0.6) }
		if set() {
			tp.TimeInMeshWeight = c10F(c, 0, 0.01, 1)
			tp.TimeInMeshQuantum = []time.Duration{time.Millisecond, time.Second, 3 * time.Second, -time.Second, 0}[c.Intn(5)]
			tp.TimeInMeshCap = c10F(c, 0, 5, 100)
		}
		if set() {
			tp.FirstMessageDeliveriesWeight = c10F(c, 0, 1, 2.5)
			tp.FirstMessageDeliveriesDecay = c10F(c, 0.3, 0.9, 0.999, 0, 1)
			tp.FirstMessageDeliveriesCap = c10F(c, 0, 2, 5, 100)
		}
		if set() {
			tp.MeshMessageDeliveriesWeight = c10F(c, 0, -1, -0.25)
			tp.MeshMessageDeliveriesDecay = c10F(c, 0.3, 0.9, 0.999, 0)
			tp.MeshMessageDeliveriesCap = c10F(c, 0, 3, 10, 100)
			tp.MeshMessageDeliveriesThreshold = c10F(c, 0, 1, 2, 8, math.Inf(1))
			tp.MeshMessageDeliveriesWindow = []time.Duration{0, 10 * time.Millisecond, 500 * time.Millisecond, 5 * time.Second}[c.Intn(4)]
			tp.MeshMessageDeliveriesActivation = []time.Duration{0, time.Second, 3 * time.Second, 10 * time.Second}[c.Intn(4)]
		}
		if set() {
			tp.MeshFailurePenaltyWeight = c10F(c, 0, -1, -0.5)
			tp.MeshFailurePenaltyDecay = c10F(c, 0.3, 0.9, 0.999, 0)
		}
		if set() {
			tp.InvalidMessageDeliveriesWeight = c10F(c, 0, -1, -10)
			tp.InvalidMessageDeliveriesDecay = c10F(c, 0.3, 0.9, 0.999, 0)
		}
		if tp.validate() == nil {
			return tp
		}
	}
	return &TopicScoreParams{TopicWeight: 1, TimeInMeshWeight: 0.01, TimeInMeshQuantum: time.Second, TimeInMeshCap: 10,
		FirstMessageDeliveriesWeight: 1, FirstMessageDeliveriesDecay: 0.9, FirstMessageDeliveriesCap: 10,
		MeshMessageDeliveriesWeight: -1, MeshMessageDeliveriesDecay: 0.9, MeshMessageDeliveriesCap: 10, MeshMessageDeliveriesThreshold: 2,
		MeshMessageDeliveriesWindow: 10 * time.Millisecond, MeshMessageDeliveriesActivation: time.Second,
		MeshFailurePenaltyWeight: -1, MeshFailurePenaltyDecay: 0.9, InvalidMessageDeliveriesWeight: -1, InvalidMessageDeliveriesDecay: 0.9}
}

func c10PeerParams(c *vCase, partial bool, app func(peer.ID) float64) *PeerScoreParams {
	for try := 0; try < 200; try++ {
		pp := &PeerScoreParams{SkipAtomicValidation: partial, Topics: map[string]*TopicScoreParams{}, AppSpecificScore: app}
		set := func() bool { return !partial || c.Chance(0.6) }
		if set() {
			pp.TopicScoreCap = c10F(c, 0, 5, 50)
		}
		pp.AppSpecificWeight = c10F(c, 0, 1, 2)
		if set() {
			pp.IPColocationFactorWeight = c10F(c, 0, -1, -5)
			pp.IPColocationFactorThreshold = c.Range(0, 3)
		}
		if set() {
			pp.BehaviourPenaltyWeight = c10F(c, 0, -1, -3)
			pp.BehaviourPenaltyDecay = c10F(c, 0.5, 0.9, 0.99, 0)
			pp.BehaviourPenaltyThreshold = c10F(c, 0, 1, 4)
		}
		// partial sets that leave the decay parameters at zero are accepted by validate()
		// but make time.NewTicker(0) panic in background(); they are probed separately
		pp.DecayInterval = []time.Duration{time.Second, 2 * time.Second, 5 * time.Second}[c.Intn(3)]
		pp.DecayToZero = c10F(c, 0.01, 0.1, 0.5)
		pp.RetainScore = []time.Duration{0, 3 * time.Second, 20 * time.Second}[c.Intn(3)]
		if pp.validate() == nil {
			return pp
		}
	}
	panic("no valid peer score params")
}

// ---------------------------------------------------------------- the monitor

func c10Msg(id string, from peer.ID, topic string) *Message {
	return &Message{Message: &pb.Message{From: []byte("a"), Seqno: []byte(id), Topic: &topic}, ReceivedFrom: from}
}

var c10Reasons = []string{RejectValidationFailed, RejectValidationIgnored, RejectValidationThrottled, RejectMissingSignature,
	RejectInvalidSignature, RejectUnexpectedSignature, RejectUnexpectedAuthInfo, RejectSelfOrigin, RejectBlacklstedPeer,
	RejectBlacklistedSource, RejectValidationQueueFull}

func TestVerifC10Score(t *testing.T) {
	vRun(t, "C10.score", vCount(1600, 50000), func(c *vCase) {
		c.Bubble(func() {
			partial := c.Chance(0.3)
			nPeers, nTopics := c.Range(1, 4), c.Range(1, 3)
			peers := make([]peer.ID, nPeers)
			for i := range peers {
				peers[i] = peer.ID(fmt.Sprintf("P%d", i))
			}
			topics := []string{"t0", "t1", "t2", "unscored"}[:nTopics+1]
			topics[nTopics] = "unscored"
			app := map[peer.ID]float64{}
			pp := c10PeerParams(c, partial, func(p peer.ID) float64 { return app[p] })
			ref := &c10Ref{pp: *pp, tp: map[string]TopicScoreParams{}, peers: map[peer.ID]*c10P{}, recs: map[string]*c10Rec{},
				ipSet: map[string]map[peer.ID]bool{}, app: app, ttl: TimeCacheDuration, hostIP: map[peer.ID][]string{}}
			for _, tn := range topics[:nTopics] {
				tp := c10TopicParams(c, partial || c.Chance(0.2))
				pp.Topics[tn] = tp
				ref.tp[tn] = *tp
			}
			if err := pp.validate(); err != nil {
				c.Inconclusive("params rejected: %v", err)
				return
			}
			if c.Chance(0.2) {
				_, wl, _ := net.ParseCIDR("10.1.0.0/16")
				pp.IPColocationFactorWhitelist = []*net.IPNet{wl}
				ref.pp.IPColocationFactorWhitelist = pp.IPColocationFactorWhitelist
			}
			ps := newPeerScore(pp, c20Discard)
			hn := &c10Net{ips: ref.hostIP}
			ps.host = &c10Host{n: hn}
			ps.idGen = newMsgIdGenerator()
			ctx, cancel := context.WithCancel(context.Background())
			defer func() { cancel(); synctest.Wait() }()
			start := time.Now()
			go ps.background(ctx)
			synctest.Wait()

			ipPool := []string{"10.0.0.1", "10.0.0.2", "10.1.0.1", "127.0.0.1", "2001:db8::1", "2001:db8::2", "2001:db8:1::1"}
			var hist []string
			nextTick := map[string]time.Time{"decay": start.Add(pp.DecayInterval), "min": start.Add(time.Minute)}
			// apply all ticks up to now to the reference
			catchUp := func() {
				now := time.Now()
				for {
					k := "decay"
					if nextTick["min"].Before(nextTick["decay"]) {
						k = "min"
					}
					tk := nextTick[k]
					if tk.After(now) {
						return
					}
					if k == "decay" {
						ref.decay(tk)
						nextTick[k] = tk.Add(pp.DecayInterval)
						c.Count("decay_ticks", 1)
					} else {
						ref.refreshIPs()
						ref.gc(tk)
						nextTick[k] = tk.Add(time.Minute)
					}
				}
			}
			msgN := 0
			type live struct {
				id, topic string
				born      time.Time
			}
			var msgs []live
			compare := func(what string) bool {
				for _, p := range peers {
					var got float64
					func() {
						defer func() {
							if r := recover(); r != nil {
								c.Violatef(map[string]string{"kind": "score_panic", "what": fmt.Sprint(r)}, "Score panicked: %v; partial=%v hist=%v", r, partial, hist)
								got = math.NaN()
							}
						}()
						got = ps.Score(p)
					}()
					if c.Violated() {
						return false
					}
					want := ref.score(p)
					if math.IsNaN(got) || math.IsInf(got, 0) {
						c.Violatef(map[string]string{"kind": "score_nan"}, "Score(%s)=%v after %s; hist=%v params=%s", p, got, what, hist, c10Params(pp))
						return false
					}
					tol := 1e-9 * math.Max(1, math.Abs(want))
					if math.Abs(got-want) > tol {
						c.Violatef(map[string]string{"kind": "score_mismatch", "after": strings.SplitN(what, "(", 2)[0]},
							"Score(%s)=%v, reference %v after %s at +%v; hist=%v params=%s", p, got, want, what, time.Since(start), hist, c10Params(pp))
						return false
					}
					// counters within [0, cap]
					ps.Lock()
					if st := ps.peerStats[p]; st != nil {
						for tn, ts := range st.topics {
							tp := pp.Topics[tn]
							if tp == nil {
								continue
							}
							if ts.firstMessageDeliveries < 0 || ts.meshMessageDeliveries < 0 || ts.meshFailurePenalty < 0 || ts.invalidMessageDeliveries < 0 ||
								ts.firstMessageDeliveries > tp.FirstMessageDeliveriesCap || ts.meshMessageDeliveries > tp.MeshMessageDeliveriesCap {
								c.Violatef(map[string]string{"kind": "counter_range"}, "counter out of range for %s/%s: %+v (caps %v %v)", p, tn, *ts, tp.FirstMessageDeliveriesCap, tp.MeshMessageDeliveriesCap)
							}
						}
						if st.behaviourPenalty < 0 {
							c.Violatef(map[string]string{"kind": "counter_range"}, "behaviour penalty %v < 0", st.behaviourPenalty)
						}
					}
					_, present := ps.peerStats[p]
					ps.Unlock()
					if _, rp := ref.peers[p]; rp != present {
						c.Violatef(map[string]string{"kind": "retention"}, "peer %s stats present=%v, reference %v after %s; hist=%v", p, present, rp, what, hist)
						return false
					}
				}
				return true
			}
			n := c.Range(20, 200)
			kinds := map[string]bool{}
			for i := 0; i < n; i++ {
				// advance to a PRNG instant that is never on a tick (odd millisecond offsets; ticks are on whole seconds)
				adv := time.Duration(c.Range(0, 4)) * 500 * time.Millisecond
				if c.Chance(0.05) {
					adv = time.Duration(c.Range(5, 70)) * time.Second
				}
				adv += time.Duration(2*c.Range(0, 200)+1) * time.Millisecond
				time.Sleep(adv)
				synctest.Wait()
				catchUp()
				if !compare("tick") {
					return
				}
				now := time.Now()
				p := peers[c.Intn(nPeers)]
				tn := topics[c.Intn(len(topics))]
				ev := c.Intn(14)
				var what string
				before := ref.score(p)
				penaltyClass := false
				switch ev {
				case 0, 1:
					what = fmt.Sprintf("connect(%s)", string(p))
					ps.OnNewOutboundStream(p, GossipSubID_v11)
					ref.connect(p)
				case 2:
					what = fmt.Sprintf("disconnect(%s)", string(p))
					ps.OnClosedOutboundStream(p)
					ref.disconnect(p, now)
				case 3, 4:
					what = fmt.Sprintf("graft(%s,%s)", string(p), tn)
					ps.Graft(p, tn)
					ref.graft(p, tn, now)
				case 5:
					what = fmt.Sprintf("prune(%s,%s)", string(p), tn)
					ps.Prune(p, tn)
					ref.prune(p, tn)
				case 6, 7: // new message: validate, then one of deliver/reject (possibly after duplicates)
					msgN++
					id := fmt.Sprintf("m%d", msgN)
					what = fmt.Sprintf("validate(%s,%s,%s)", id, p, tn)
					ps.ValidateMessage(c10Msg(id, p, tn))
					ref.rec(id, now)
					msgs = append(msgs, live{id, tn, now})
				case 8:
					if len(msgs) == 0 {
						continue
					}
					m := msgs[c.Intn(len(msgs))]
					what = fmt.Sprintf("deliver(%s,%s)", m.id, p)
					ps.DeliverMessage(c10Msg(m.id, p, m.topic))
					ref.deliver(p, m.topic, m.id, now)
				case 9:
					if len(msgs) == 0 {
						continue
					}
					m := msgs[c.Intn(len(msgs))]
					reason := c10Reasons[c.Intn(len(c10Reasons))]
					what = fmt.Sprintf("reject(%s,%s,%s)", m.id, p, reason)
					ps.RejectMessage(c10Msg(m.id, p, m.topic), reason)
					ref.reject(p, m.topic, m.id, reason, now)
					penaltyClass = true
				case 10:
					if len(msgs) == 0 {
						continue
					}
					m := msgs[c.Intn(len(msgs))]
					what = fmt.Sprintf("duplicate(%s,%s)", m.id, p)
					ps.DuplicateMessage(c10Msg(m.id, p, m.topic))
					ref.duplicate(p, m.topic, m.id, now)
				case 11:
					k := c.Range(1, 4)
					what = fmt.Sprintf("penalty(%s,%d)", string(p), k)
					ps.AddPenalty(p, k)
					if rp := ref.peers[p]; rp != nil {
						rp.bp += float64(k)
					}
					penaltyClass = true
				case 12:
					if c.Chance(0.5) {
						app[p] = c10F(c, -5, -1, 0, 1, 10)
						what = fmt.Sprintf("app(%s,%v)", string(p), app[p])
					} else {
						k := c.Range(0, 2)
						var ips []string
						for j := 0; j < k; j++ {
							ips = append(ips, ipPool[c.Intn(len(ipPool))])
						}
						ref.hostIP[p] = ips
						what = fmt.Sprintf("ips(%s,%v)", string(p), ips) // takes effect at connect / the next minute tick
					}
				case 13:
					if tn == "unscored" {
						continue
					}
					np := c10TopicParams(c, partial)
					what = fmt.Sprintf("setparams(%s)", tn)
					if err := ps.SetTopicScoreParams(tn, np); err != nil {
						continue
					}
					ref.setTopicParams(tn, *np)
				}
				kinds[strings.SplitN(what, "(", 2)[0]] = true
				hist = append(hist, fmt.Sprintf("+%v %s", time.Since(start), what))
				c.Count("events", 1)
				// drop messages older than 30s from the active set (keeps every message's events far from record GC)
				for len(msgs) > 0 && now.Sub(msgs[0].born) > 30*time.Second {
					msgs = msgs[1:]
				}
				if !compare(what) {
					return
				}
				if penaltyClass {
					if after := ref.score(p); after > before+1e-12 {
						c.Violatef(map[string]string{"kind": "penalty_raised_score"}, "%s raised the score %v -> %v", what, before, after)
					}
				}
				c.State(fmt.Sprintf("%.3f", ref.score(p)), len(ref.peers), len(ref.recs))
			}
			ks := make([]string, 0, len(kinds))
			for k := range kinds {
				ks = append(ks, k)
			}
			sort.Strings(ks)
			c.Sig(partial, nPeers, nTopics, strings.Join(ks, ","), n/20)
			c.Nontrivial(len(ks) >= 6)
			if c.Idx < 2 {
				h := hist
				if len(h) > 25 {
					h = h[:25]
				}
				c.Sample(map[string]any{"partial_params": partial, "peers": nPeers, "topics": nTopics, "events": len(hist), "first_events": h, "params": c10Params(pp)})
			}
		})
	})
}

func c10Params(pp *PeerScoreParams) string {
	var b strings.Builder
	fmt.Fprintf(&b, "{skip=%v cap=%v appW=%v ipW=%v ipTh=%v bpW=%v bpDecay=%v bpTh=%v decay=%v dz=%v retain=%v", pp.SkipAtomicValidation, pp.TopicScoreCap,
		pp.AppSpecificWeight, pp.IPColocationFactorWeight, pp.IPColocationFactorThreshold, pp.BehaviourPenaltyWeight, pp.BehaviourPenaltyDecay,
		pp.BehaviourPenaltyThreshold, pp.DecayInterval, pp.DecayToZero, pp.RetainScore)
	var ts []string
	for t := range pp.Topics {
		ts = append(ts, t)
	}
	sort.Strings(ts)
	for _, t := range ts {
		tp := *pp.Topics[t]
		fmt.Fprintf(&b, " %s:%+v", t, tp)
	}
	b.WriteString("}")
	return b.String()
}

// Partial parameter sets that validate() accepts but that leave divisors /
// ticker intervals at zero: starting the scorer and scoring a grafted peer
// must not panic.
func TestVerifC10Partial(t *testing.T) {
	vRun(t, "C10.partial", vCount(60, 600), func(c *vCase) {
		c.Bubble(func() {
			pp := &PeerScoreParams{SkipAtomicValidation: true, Topics: map[string]*TopicScoreParams{}}
			if c.Chance(0.7) {
				pp.DecayInterval, pp.DecayToZero = time.Second, 0.01
			}
			if c.Chance(0.5) {
				pp.AppSpecificScore = func(peer.ID) float64 { return 0 }
			}
			tp := c10TopicParams(c, true)
			pp.Topics["t"] = tp
			if err := pp.validate(); err != nil {
				c.Inconclusive("rejected: %v", err)
				return
			}
			desc := fmt.Sprintf("decayInterval=%v quantum=%v timeInMeshWeight=%v", pp.DecayInterval, tp.TimeInMeshQuantum, tp.TimeInMeshWeight)
			ctx, cancel := context.WithCancel(context.Background())
			defer func() { cancel(); synctest.Wait() }()
			ps := newPeerScore(pp, c20Discard)
			ps.idGen = newMsgIdGenerator()
			guard := func(where string, f func()) bool {
				ok := true
				func() {
					defer func() {
						if r := recover(); r != nil {
							ok = false
							c.Violatef(map[string]string{"kind": "score_panic", "where": where, "what": fmt.Sprint(r)}, "%s panicked with an accepted partial parameter set (%s): %v", where, desc, r)
						}
					}()
					f()
				}()
				return ok
			}
			// a panic in background() ends the child process; the runner attributes it to this case
			go ps.background(ctx)
			synctest.Wait()
			ps.OnNewOutboundStream("p", GossipSubID_v11)
			ps.Graft("p", "t")
			time.Sleep(1500 * time.Millisecond)
			synctest.Wait()
			var s float64
			if guard("Score", func() { s = ps.Score("p") }) && (math.IsNaN(s) || math.IsInf(s, 0)) {
				c.Violatef(map[string]string{"kind": "score_nan"}, "Score=%v with %s", s, desc)
			}
			c.Sig(desc)
			c.Nontrivial(true)
			if c.Idx < 2 {
				c.Sample(desc)
			}
		})
	})
}
