//go:build verif

package pubsub

// C15 — the per-peer outbound queue is a linearizable bounded two-class FIFO.
// (a) exhaustive sequential comparison with a reference model, plus scripted
//     blocking behaviour inside a bubble;
// (b) real-time concurrent stress checked with porcupine + linear-time checks;
// (c) forced cancel-vs-wait interleaving through the verif hook.

import (
	"context"
	"errors"
	"fmt"
	"runtime"
	"sort"
	"strings"
	"sync"
	"sync/atomic"
	"testing"
	"testing/synctest"
	"time"

	"github.com/anishathalye/porcupine"
)

// ---------------------------------------------------------------- reference model

type c15Model struct {
	cap            int
	urgent, normal []int
	closed         bool
}

func (m *c15Model) len() int { return len(m.urgent) + len(m.normal) }

func (m *c15Model) clone() c15Model {
	return c15Model{cap: m.cap, urgent: append([]int(nil), m.urgent...), normal: append([]int(nil), m.normal...), closed: m.closed}
}

func (m *c15Model) key() string { return fmt.Sprint(m.cap, m.urgent, m.normal, m.closed) }

const (
	c15OK        = "ok"
	c15Full      = "full"
	c15Cancelled = "cancelled"
	c15Closed    = "closed"
	c15Reported  = "push-on-closed-reported"
)

func c15ID(r *RPC) int {
	// the id rides in the `from` field, which never goes on the wire
	var id int
	fmt.Sscanf(string(r.from), "%d", &id)
	return id
}

func c15RPC(id int) *RPC { return &RPC{from: peerIDOf(id)} }

// c15Push performs a push and maps the outcome (including the library's way of
// reporting a push on a closed queue: panic(ErrQueuePushOnClosed)).
func c15Push(q *rpcQueue, id int, urgent, block bool) (res string) {
	defer func() {
		if r := recover(); r != nil {
			if e, ok := r.(error); ok && errors.Is(e, ErrQueuePushOnClosed) {
				res = c15Reported
				return
			}
			panic(r)
		}
	}()
	var err error
	if urgent {
		err = q.UrgentPush(c15RPC(id), block)
	} else {
		err = q.Push(c15RPC(id), block)
	}
	switch {
	case err == nil:
		return c15OK
	case errors.Is(err, ErrQueueFull):
		return c15Full
	default:
		return "err:" + err.Error()
	}
}

func c15Pop(q *rpcQueue, ctx context.Context) (string, int) {
	r, err := q.Pop(ctx)
	switch {
	case err == nil:
		return c15OK, c15ID(r)
	case errors.Is(err, ErrQueueCancelled):
		return c15Cancelled, 0
	case errors.Is(err, ErrQueueClosed):
		return c15Closed, 0
	default:
		return "err:" + err.Error(), 0
	}
}

// ---------------------------------------------------------------- (a) sequential exhaustive

const (
	c15OpPush = iota
	c15OpUrgent
	c15OpPop
	c15OpPopCancelled
	c15OpClose
	c15OpLenProbe
	c15NOps
)

var c15OpNames = []string{"push", "urgent", "pop", "pop(cancelled)", "close", "len"}

func c15RunSeq(c *vCase, capacity int, seq []int) {
	q := newRpcQueue(capacity)
	m := c15Model{cap: capacity}
	next := 1
	cctx, cancel := context.WithCancel(context.Background())
	cancel()
	fail := func(i int, cause string, format string, args ...any) {
		names := make([]string, len(seq))
		for k, o := range seq {
			names[k] = c15OpNames[o]
		}
		c.Violatef(map[string]string{"kind": cause, "op": c15OpNames[seq[i]]}, "cap=%d seq=%v step %d: %s", capacity, names, i, fmt.Sprintf(format, args...))
	}
	for i, op := range seq {
		switch op {
		case c15OpPush, c15OpUrgent:
			id := next
			next++
			got := c15Push(q, id, op == c15OpUrgent, false)
			want := c15OK
			switch {
			case m.closed:
				want = c15Reported
			case m.len() >= m.cap:
				want = c15Full
			default:
				if op == c15OpUrgent {
					m.urgent = append(m.urgent, id)
				} else {
					m.normal = append(m.normal, id)
				}
			}
			if got != want {
				fail(i, "seq_result", "push returned %q, model says %q", got, want)
				return
			}
		case c15OpPop, c15OpPopCancelled:
			if op == c15OpPop && m.len() == 0 && !m.closed {
				continue // would block; blocking behaviour is covered by the scripted monitor
			}
			ctx := context.Background()
			if op == c15OpPopCancelled {
				ctx = cctx
			}
			got, id := c15Pop(q, ctx)
			switch {
			case m.closed:
				if got != c15Closed {
					fail(i, "seq_result", "pop on closed queue returned %q", got)
					return
				}
			case m.len() == 0:
				if got != c15Cancelled {
					fail(i, "seq_result", "pop with cancelled context on empty queue returned %q", got)
					return
				}
			default:
				// with a cancelled context and data present either outcome is prompt and legal
				if got == c15Cancelled && op == c15OpPopCancelled {
					continue
				}
				var want int
				if len(m.urgent) > 0 {
					want, m.urgent = m.urgent[0], m.urgent[1:]
				} else {
					want, m.normal = m.normal[0], m.normal[1:]
				}
				if got != c15OK || id != want {
					fail(i, "seq_order", "pop returned (%q,%d), model says item %d", got, id, want)
					return
				}
			}
		case c15OpClose:
			q.Close()
			m.closed = true
		case c15OpLenProbe:
			q.queueMu.Lock()
			l := q.queue.Len()
			q.queueMu.Unlock()
			if l != m.len() || l > capacity {
				fail(i, "seq_len", "queue holds %d, model %d, capacity %d", l, m.len(), capacity)
				return
			}
		}
		c.State(m.key())
	}
}

func TestVerifC15Seq(t *testing.T) {
	type pre struct{ cap, a, b int }
	var pres []pre
	for capacity := 1; capacity <= 3; capacity++ {
		for a := 0; a < c15NOps; a++ {
			for b := 0; b < c15NOps; b++ {
				pres = append(pres, pre{capacity, a, b})
			}
		}
	}
	vRun(t, "C15.seq", func(string) int { return len(pres) }, func(c *vCase) {
		p := pres[c.Idx]
		rest := 4
		if c.Tier == "thorough" {
			rest = 6
		}
		seq := make([]int, 2+rest)
		seq[0], seq[1] = p.a, p.b
		n := 0
		var rec func(i int)
		rec = func(i int) {
			if c.Violated() {
				return
			}
			// every prefix is itself a sequence (shorter lengths are covered)
			if i == len(seq) {
				c15RunSeq(c, p.cap, seq)
				n++
				return
			}
			for o := 0; o < c15NOps; o++ {
				seq[i] = o
				rec(i + 1)
			}
		}
		rec(2)
		c.Count("sequences", n)
		c.Count("ops", n*len(seq))
		c.Sig(p)
		c.Nontrivial(true)
		if c.Idx == 40 {
			c.Sample(map[string]any{"capacity": p.cap, "prefix": []string{c15OpNames[p.a], c15OpNames[p.b]}, "suffix_len": rest, "sequences": n})
		}
	})
}

// ---------------------------------------------------------------- (a') scripted blocking behaviour in a bubble

type c15Waiter struct {
	kind   string // push | pop
	id     int
	urgent bool
	ctx    context.Context
	cancel context.CancelFunc
	done   atomic.Bool
	res    string
	got    int
}

func TestVerifC15Block(t *testing.T) {
	vRun(t, "C15.block", vCount(400, 20000), func(c *vCase) {
		c.Bubble(func() {
			capacity := c.Range(1, 3)
			q := newRpcQueue(capacity)
			defer c15WatchPushes(c, q)()
			var waiters []*c15Waiter
			pushedOK := map[int]bool{}
			popped := map[int]int{}
			next := 1
			steps := c.Range(4, 16)
			closed := false
			var script []string
			blockedOf := func(kind string) (out []*c15Waiter) {
				for _, w := range waiters {
					if w.kind == kind && !w.done.Load() {
						out = append(out, w)
					}
				}
				return
			}
			collect := func() {
				for _, w := range waiters {
					if w.done.Load() {
						if w.kind == "push" && w.res == c15OK {
							pushedOK[w.id] = true
						}
						if w.kind == "pop" && w.res == c15OK && w.got != 0 {
							popped[w.got]++
							w.got = 0
						}
					}
				}
			}
			check := func(step string) bool {
				synctest.Wait()
				collect()
				q.queueMu.Lock()
				l := q.queue.Len()
				q.queueMu.Unlock()
				bp, bo := blockedOf("push"), blockedOf("pop")
				bad := func(kind, format string, args ...any) bool {
					c.Violatef(map[string]string{"kind": kind}, "cap=%d script=%v after %q: %s", capacity, script, step, fmt.Sprintf(format, args...))
					return false
				}
				if l > capacity {
					return bad("over_capacity", "queue holds %d > capacity", l)
				}
				if closed && (len(bp) > 0 || len(bo) > 0) {
					return bad("blocked_after_close", "%d pushers / %d poppers still blocked after Close", len(bp), len(bo))
				}
				if !closed && len(bo) > 0 && l > 0 {
					return bad("pop_blocked_with_data", "%d poppers blocked while the queue holds %d", len(bo), l)
				}
				if !closed && len(bp) > 0 && l < capacity {
					return bad("push_blocked_with_space", "%d pushers blocked while the queue holds %d of %d", len(bp), l, capacity)
				}
				for _, w := range bo {
					if w.ctx.Err() != nil {
						return bad("lost_wakeup", "pop still blocked at quiescence although its context is cancelled")
					}
				}
				c.State(capacity, l, len(bp), len(bo), closed)
				return true
			}
			for s := 0; s < steps && !c.Violated(); s++ {
				before := len(script)
				switch op := c.Intn(11); {
				case op == 8 && !closed && c.Chance(0.5): // Close right behind a push: a waiter has been signalled and has not resumed yet
					id := next
					next++
					r := c15Push(q, id, c.Chance(0.3), false)
					q.Close()
					closed = true
					if r == c15OK {
						pushedOK[id] = true
					}
					script = append(script, fmt.Sprintf("push(%d)=%s+close", id, r))
				case op == 9 && !closed && c.Chance(0.5): // Close right behind a pop that made room for a blocked pusher
					q.queueMu.Lock()
					l := q.queue.Len()
					q.queueMu.Unlock()
					if l == 0 {
						continue
					}
					res, got := c15Pop(q, context.Background())
					q.Close()
					closed = true
					if res == c15OK {
						popped[got]++
					}
					script = append(script, fmt.Sprintf("pop=%s+close", res))
				case op == 10: // virtual time passes (deadlines of waiting pops expire)
					d := time.Duration(c.Range(1, 50)) * time.Millisecond
					time.Sleep(d)
					script = append(script, fmt.Sprintf("sleep(%v)", d))
				case op == 7 && !closed: // a burst of non-blocking pushes with no pause in between (several waiters may have to wake)
					k := c.Range(2, 4)
					var rs []string
					for i := 0; i < k; i++ {
						id := next
						next++
						r := c15Push(q, id, c.Chance(0.3), false)
						rs = append(rs, fmt.Sprintf("%d=%s", id, r))
						if r == c15OK {
							pushedOK[id] = true
						}
					}
					script = append(script, fmt.Sprintf("burst(%s)", strings.Join(rs, ",")))
				case op <= 1 && !closed: // blocking push
					w := &c15Waiter{kind: "push", id: next, urgent: c.Chance(0.4)}
					next++
					waiters = append(waiters, w)
					script = append(script, fmt.Sprintf("push!(%d,u=%v)", w.id, w.urgent))
					go func() { w.res = c15Push(q, w.id, w.urgent, true); w.done.Store(true) }()
				case op == 2 && !closed: // non-blocking push
					id := next
					next++
					u := c.Chance(0.4)
					r := c15Push(q, id, u, false)
					script = append(script, fmt.Sprintf("push(%d)=%s", id, r))
					if r == c15OK {
						pushedOK[id] = true
					}
				case op == 3 || op == 4: // pop with live context
					w := &c15Waiter{kind: "pop"}
					if c.Chance(0.3) {
						// a context that ends by its deadline instead of a cancel call
						d := time.Duration(c.Range(1, 40)) * time.Millisecond
						w.ctx, w.cancel = context.WithTimeout(context.Background(), d)
						script = append(script, fmt.Sprintf("pop!(deadline %v)", d))
					} else {
						w.ctx, w.cancel = context.WithCancel(context.Background())
						script = append(script, "pop!")
					}
					waiters = append(waiters, w)
					go func() { w.res, w.got = c15Pop(q, w.ctx); w.done.Store(true) }()
				case op == 5: // cancel a blocked pop
					if bo := blockedOf("pop"); len(bo) > 0 {
						bo[c.Intn(len(bo))].cancel()
						script = append(script, "cancel")
					}
				case op == 6 && c.Chance(0.4):
					q.Close()
					closed = true
					script = append(script, "close")
				default:
					continue
				}
				if len(script) == before {
					continue
				}
				if !check(script[len(script)-1]) {
					break
				}
			}
			// drain: close so that everything returns, then verify results
			q.Close()
			closed = true
			script = append(script, "close(final)")
			check("close(final)")
			for _, w := range waiters {
				if w.cancel != nil {
					w.cancel()
				}
				if !w.done.Load() {
					continue
				}
				switch w.kind {
				case "push":
					if w.res != c15OK && w.res != c15Reported {
						c.Violatef(map[string]string{"kind": "block_result"}, "blocking push returned %q", w.res)
					}
				case "pop":
					if w.res != c15OK && w.res != c15Closed && w.res != c15Cancelled {
						c.Violatef(map[string]string{"kind": "block_result"}, "pop returned %q", w.res)
					}
					if w.res == c15Cancelled && w.ctx.Err() == nil {
						c.Violatef(map[string]string{"kind": "block_result"}, "pop returned cancelled without its context being cancelled")
					}
				}
			}
			for id, n := range popped {
				if n > 1 || !pushedOK[id] {
					c.Violatef(map[string]string{"kind": "conservation"}, "script=%v: item %d popped %d times, pushed=%v", script, id, n, pushedOK[id])
				}
			}
			c.Count("steps", len(script))
			c.Sig(capacity, strings.Join(vStripDigits(script), ","))
			c.Nontrivial(len(waiters) >= 2)
			if c.Idx < 2 {
				c.Sample(map[string]any{"capacity": capacity, "script": script})
			}
		})
	})
}

func vStripDigits(ss []string) []string {
	out := make([]string, len(ss))
	for i, s := range ss {
		b := []byte(s)
		k := 0
		for _, ch := range b {
			if ch < '0' || ch > '9' {
				b[k] = ch
				k++
			}
		}
		out[i] = string(b[:k])
	}
	return out
}

// ---------------------------------------------------------------- (c) forced cancel-vs-wait interleaving

func TestVerifC15Forced(t *testing.T) {
	vRun(t, "C15.forced", vCount(150, 3000), func(c *vCase) {
		c.Bubble(func() {
			capacity := c.Range(1, 3)
			q := newRpcQueue(capacity)
			others := c.Range(0, 2) // other poppers already waiting (they must stay blocked)
			for i := 0; i < others; i++ {
				go func() { c15Pop(q, context.Background()) }()
			}
			synctest.Wait()
			ctx, cancel := context.WithCancel(context.Background())
			var reached atomic.Int32
			yields := c.Range(20, 200)
			hook := func(hq *rpcQueue) {
				if hq != q || reached.Add(1) != 1 {
					return
				}
				// the cancellation lands exactly between the context check and the wait
				cancel()
				for i := 0; i < yields; i++ {
					runtime.Gosched()
				}
			}
			verifPopBeforeWaitHook.Store(&hook)
			defer verifPopBeforeWaitHook.Store(nil)
			var done atomic.Bool
			var res string
			go func() { res, _ = c15Pop(q, ctx); done.Store(true) }()
			synctest.Wait()
			c.Count("hook_reached", int(min(reached.Load(), 1)))
			if reached.Load() == 0 {
				c.Inconclusive("hook not reached")
			} else if !done.Load() {
				c.Violatef(map[string]string{"kind": "lost_wakeup", "where": "cancel_between_check_and_wait"},
					"cap=%d others=%d: Pop is still blocked at bubble quiescence although its context was cancelled between the ctx.Done() check and Cond.Wait", capacity, others)
			} else if res != c15Cancelled {
				c.Violatef(map[string]string{"kind": "forced_result"}, "Pop returned %q, want cancelled", res)
			}
			verifPopBeforeWaitHook.Store(nil)
			q.Close() // release everybody so that the bubble can end
			synctest.Wait()
			c.Sig(capacity, others, yields/50)
			c.Nontrivial(reached.Load() > 0)
			c.Order(capacity, others, done.Load())
			if c.Idx < 2 {
				c.Sample(map[string]any{"capacity": capacity, "waiting_poppers": others, "yields": yields, "pop_returned": done.Load(), "result": res})
			}
		})
	})
}

// ---------------------------------------------------------------- (b) concurrent stress + porcupine

type c15In struct {
	Op     string // push pop close
	ID     int
	Urgent bool
	Block  bool
}

type c15Out struct {
	Res string
	ID  int
}

func c15PorcupineModel(capacity int) porcupine.Model {
	return porcupine.Model{
		Init: func() interface{} { return c15Model{cap: capacity} },
		Step: func(state, input, output interface{}) (bool, interface{}) {
			m := state.(c15Model)
			in := input.(c15In)
			out := output.(c15Out)
			switch in.Op {
			case "close":
				n := m.clone()
				n.closed = true
				return true, n
			case "push":
				if m.closed {
					return out.Res == c15Reported, m
				}
				if m.len() >= m.cap {
					// a blocking push cannot take effect here; a non-blocking one reports full
					return !in.Block && out.Res == c15Full, m
				}
				if out.Res != c15OK {
					return false, m
				}
				n := m.clone()
				if in.Urgent {
					n.urgent = append(n.urgent, in.ID)
				} else {
					n.normal = append(n.normal, in.ID)
				}
				return true, n
			case "pop":
				if m.closed {
					return out.Res == c15Closed, m
				}
				if m.len() == 0 {
					return out.Res == c15Cancelled, m
				}
				if out.Res == c15Cancelled {
					return false, m // cancellation is only reported on an empty queue
				}
				n := m.clone()
				var want int
				if len(n.urgent) > 0 {
					want, n.urgent = n.urgent[0], n.urgent[1:]
				} else {
					want, n.normal = n.normal[0], n.normal[1:]
				}
				return out.Res == c15OK && out.ID == want, n
			}
			return false, m
		},
		Equal: func(a, b interface{}) bool {
			x, y := a.(c15Model), b.(c15Model)
			return x.key() == y.key()
		},
		DescribeOperation: func(input, output interface{}) string {
			return fmt.Sprintf("%+v -> %+v", input, output)
		},
	}
}

func TestVerifC15Stress(t *testing.T) {
	vRun(t, "C15.stress", vCount(1500, 60000), func(c *vCase) {
		capacity := c.Range(1, 3)
		q := newRpcQueue(capacity)
		defer c15WatchPushes(c, q)()
		var clock atomic.Int64
		var mu sync.Mutex
		var ops []porcupine.Operation
		rec := func(client int, in c15In, f func() c15Out) {
			call := clock.Add(1)
			out := f()
			ret := clock.Add(1)
			mu.Lock()
			ops = append(ops, porcupine.Operation{ClientId: client, Input: in, Call: call, Output: out, Return: ret})
			mu.Unlock()
		}
		nPush, nPop := c.Range(2, 5), c.Range(1, 4)
		perPusher := c.Range(2, 6)
		// budget: at most ~40 operations per history
		perPopper := (nPush*perPusher)/nPop + 1
		var wg sync.WaitGroup
		var stop atomic.Bool
		var overCap atomic.Int32
		// who could still wake a blocked caller: unfinished pushers and poppers, cancel goroutines, the closer
		var unfinished, cancellers atomic.Int32
		var closeDone atomic.Bool
		// sampler: len <= capacity under the queue's own mutex
		sdone := make(chan struct{})
		go func() {
			defer close(sdone)
			for !stop.Load() {
				q.queueMu.Lock()
				if q.queue.Len() > capacity {
					overCap.Add(1)
				}
				q.queueMu.Unlock()
				runtime.Gosched()
			}
		}()
		type plan struct {
			urgent, block []bool
			pause         []int
		}
		client := 0
		for p := 0; p < nPush; p++ {
			pl := plan{}
			for i := 0; i < perPusher; i++ {
				pl.urgent = append(pl.urgent, c.Chance(0.35))
				pl.block = append(pl.block, c.Chance(0.5))
				pl.pause = append(pl.pause, c.Intn(4))
			}
			wg.Add(1)
			unfinished.Add(1)
			go func(p, client int) {
				defer wg.Done()
				defer unfinished.Add(-1)
				for i := 0; i < perPusher; i++ {
					for k := 0; k < pl.pause[i]; k++ {
						runtime.Gosched()
					}
					id := (p+1)<<16 | (i + 1)
					in := c15In{Op: "push", ID: id, Urgent: pl.urgent[i], Block: pl.block[i]}
					var res string
					rec(client, in, func() c15Out { res = c15Push(q, id, in.Urgent, in.Block); return c15Out{Res: res} })
					if res == c15Reported {
						return
					}
				}
			}(p, client)
			client++
		}
		cancelAfter := make([]int, nPop*perPopper)
		for i := range cancelAfter {
			cancelAfter[i] = -1
			if c.Chance(0.3) {
				cancelAfter[i] = c.Intn(30)
			}
		}
		for p := 0; p < nPop; p++ {
			wg.Add(1)
			unfinished.Add(1)
			go func(p, client int) {
				defer wg.Done()
				defer unfinished.Add(-1)
				for i := 0; i < perPopper; i++ {
					ctx, cancel := context.WithCancel(context.Background())
					ca := cancelAfter[p*perPopper+i]
					var cwg sync.WaitGroup
					if ca >= 0 {
						cwg.Add(1)
						cancellers.Add(1)
						go func() {
							defer cwg.Done()
							defer cancellers.Add(-1)
							for k := 0; k < ca; k++ {
								runtime.Gosched()
							}
							cancel()
						}()
					}
					var out c15Out
					rec(client, c15In{Op: "pop"}, func() c15Out { out.Res, out.ID = c15Pop(q, ctx); return out })
					cwg.Wait()
					cancel()
					if out.Res == c15Closed {
						return
					}
				}
			}(p, client)
			client++
		}
		// closer: after the pushers had a chance, close (everything still blocked returns)
		closeAfter := c.Range(20, 400)
		wg.Add(1)
		go func(client int) {
			defer wg.Done()
			for k := 0; k < closeAfter; k++ {
				runtime.Gosched()
			}
			rec(client, c15In{Op: "close"}, func() c15Out { q.Close(); return c15Out{Res: c15OK} })
			closeDone.Store(true)
		}(client)
		fin := make(chan struct{})
		go func() { wg.Wait(); close(fin) }()
		// A history that does not finish is judged on its structure, not on the clock: once Close has returned and no
		// cancel goroutine is left, a caller parked in the queue's condition variable can only be woken by another
		// pusher or popper; when every unfinished one is parked there (same goroutines in two dumps, nothing else
		// inside the queue's code) nobody is left to wake them. The wall-clock watchdog stays inconclusive.
		tick := time.NewTicker(500 * time.Millisecond)
		defer tick.Stop()
		watchdog := time.After(60 * time.Second)
		lastStuck := ""
	wait:
		for {
			select {
			case <-fin:
				break wait
			case <-watchdog:
				stop.Store(true)
				c.Inconclusive("stress history did not finish within the watchdog")
				return
			case <-tick.C:
				n := int(unfinished.Load())
				if !closeDone.Load() || cancellers.Load() != 0 || n == 0 {
					lastStuck = ""
					continue
				}
				ids, kinds, others := c15Parked()
				if others > 0 || len(ids) != n || int(unfinished.Load()) != n {
					lastStuck = ""
					continue
				}
				key := strings.Join(ids, ",")
				if key != lastStuck {
					lastStuck = key
					continue
				}
				stop.Store(true)
				c.Violatef(map[string]string{"kind": "blocked_after_close", "who": strings.Join(kinds, "+")},
					"cap=%d, %d pushers, %d poppers: Close has returned, no cancellation is pending, and the %d callers that have not returned (%s) are all parked in the queue's condition variable: nobody is left to wake them",
					capacity, nPush, nPop, n, strings.Join(kinds, ", "))
				// let them go so that the process can continue with the next case
				q.queueMu.Lock()
				q.dataAvailable.Broadcast()
				q.spaceAvailable.Broadcast()
				q.queueMu.Unlock()
				<-fin
				<-sdone
				return
			}
		}
		stop.Store(true)
		<-sdone
		if overCap.Load() > 0 {
			c.Violatef(map[string]string{"kind": "over_capacity"}, "sampler saw the queue above capacity %d times", overCap.Load())
		}
		// linear-time checks
		pushed := map[int]c15In{}
		poppedAt := map[int]int64{}
		var popsByTime []porcupine.Operation
		for _, o := range ops {
			in, out := o.Input.(c15In), o.Output.(c15Out)
			if in.Op == "push" && out.Res == c15OK {
				pushed[in.ID] = in
			}
			if in.Op == "pop" && out.Res == c15OK {
				if _, dup := poppedAt[out.ID]; dup {
					c.Violatef(map[string]string{"kind": "duplicated"}, "item %x popped twice", out.ID)
				}
				poppedAt[out.ID] = o.Return
				popsByTime = append(popsByTime, o)
			}
		}
		q.queueMu.Lock()
		remaining := append(append([]*RPC(nil), q.queue.priority...), q.queue.normal...)
		q.queueMu.Unlock()
		remSet := map[int]bool{}
		for _, r := range remaining {
			remSet[c15ID(r)] = true
		}
		for id := range poppedAt {
			if _, ok := pushed[id]; !ok {
				c.Violatef(map[string]string{"kind": "invented"}, "popped item %x was never successfully pushed", id)
			}
		}
		for id := range pushed {
			_, p := poppedAt[id]
			if p == remSet[id] {
				c.Violatef(map[string]string{"kind": "conservation"}, "item %x: popped=%v remaining=%v", id, p, remSet[id])
			}
		}
		// per producer, per class FIFO: a producer pushes sequentially, so its items of one
		// class must be popped in push order whenever the pops do not overlap in time
		sort.Slice(popsByTime, func(i, j int) bool { return popsByTime[i].Return < popsByTime[j].Return })
		for i := range popsByTime {
			for j := i + 1; j < len(popsByTime); j++ {
				a, b := popsByTime[i].Output.(c15Out).ID, popsByTime[j].Output.(c15Out).ID
				if a>>16 == b>>16 && pushed[a].Urgent == pushed[b].Urgent && a > b && popsByTime[i].Return < popsByTime[j].Call {
					c.Violatef(map[string]string{"kind": "fifo"}, "items %x and %x of one producer and class popped out of order", a, b)
				}
			}
		}
		res, info := porcupine.CheckOperationsVerbose(c15PorcupineModel(capacity), ops, 20*time.Second)
		switch res {
		case porcupine.Illegal:
			_ = info
			c.Violatef(map[string]string{"kind": "not_linearizable"}, "cap=%d history of %d ops is not linearizable: %s", capacity, len(ops), c15Hist(ops))
		case porcupine.Unknown:
			c.Inconclusive("porcupine timeout")
		}
		nb := 0
		for _, o := range ops {
			if o.Input.(c15In).Block {
				nb++
			}
		}
		c.Count("ops", len(ops))
		c.Count("histories", 1)
		c.Order(c15Shape(ops))
		c.Sig(capacity, nPush, nPop, c15Shape(ops))
		c.Nontrivial(len(ops) >= 8 && nb > 0)
		if c.Idx < 2 {
			c.Sample(map[string]any{"capacity": capacity, "pushers": nPush, "poppers": nPop, "history": c15Hist(ops)})
		}
	})
}

func c15Shape(ops []porcupine.Operation) string {
	s := append([]porcupine.Operation(nil), ops...)
	sort.Slice(s, func(i, j int) bool { return s[i].Call < s[j].Call })
	var b strings.Builder
	for _, o := range s {
		in, out := o.Input.(c15In), o.Output.(c15Out)
		b.WriteString(in.Op[:2])
		b.WriteString(out.Res[:2])
	}
	return b.String()
}

func c15Hist(ops []porcupine.Operation) string {
	s := append([]porcupine.Operation(nil), ops...)
	sort.Slice(s, func(i, j int) bool { return s[i].Call < s[j].Call })
	var parts []string
	for _, o := range s {
		in, out := o.Input.(c15In), o.Output.(c15Out)
		parts = append(parts, fmt.Sprintf("[%d-%d c%d %s id=%x u=%v b=%v -> %s %x]", o.Call, o.Return, o.ClientId, in.Op, in.ID, in.Urgent, in.Block, out.Res, out.ID))
	}
	return strings.Join(parts, " ")
}

// c15Parked looks at all goroutines: ids and kinds ("pop" / "push") of those parked in sync.Cond.Wait under
// rpcQueue.Pop / rpcQueue.push, and the number of other goroutines currently inside the queue's code.
func c15Parked() (ids, kinds []string, others int) {
	buf := make([]byte, 1<<20)
	for {
		n := runtime.Stack(buf, true)
		if n < len(buf) {
			buf = buf[:n]
			break
		}
		buf = make([]byte, 2*len(buf))
	}
	for _, g := range strings.Split(string(buf), "\n\n") {
		nl := strings.IndexByte(g, '\n')
		if nl < 0 || !strings.Contains(g, "(*rpcQueue).") {
			continue
		}
		hdr := g[:nl]
		kind := ""
		switch {
		case strings.Contains(g, "(*rpcQueue).Pop("):
			kind = "pop"
		case strings.Contains(g, "(*rpcQueue).push("):
			kind = "push"
		}
		if kind != "" && strings.Contains(hdr, "[sync.Cond.Wait") {
			ids = append(ids, strings.Fields(hdr)[1])
			kinds = append(kinds, kind)
		} else {
			others++
		}
	}
	sort.Strings(ids)
	sort.Strings(kinds)
	return
}


// c15WatchPushes asserts, at the moment of acceptance and under the queue's own mutex (push-outcome hook, build tag
// verif), that no push is accepted by a queue that is already closed. A blocked push that resumes after Close is
// indistinguishable at the API boundary from one that got in just before it; at the hook it is not.
func c15WatchPushes(c *vCase, q *rpcQueue) (finish func()) {
	var bad atomic.Int32
	f := func(pq *rpcQueue, rpc *RPC, urgent bool, err error) {
		if pq == q && err == nil && pq.closed {
			bad.Add(1)
		}
	}
	verifPushedHook.Store(&f)
	return func() {
		verifPushedHook.Store(nil)
		if n := bad.Load(); n > 0 {
			c.Violatef(map[string]string{"kind": "accepted_on_closed_queue"}, "%d push(es) were accepted (appended, nil returned) while the queue was already closed", n)
		}
	}
}
