//go:build verif

package pubsub

// C07 — mesh maintenance keeps every joined topic's mesh within its
// invariants. Every heartbeat is bracketed by two event-loop snapshots; the
// invariants I1..I7 of DESIGN.md section 4 are evaluated from the statement.

import (
	"context"
	"fmt"
	"sort"
	"strings"
	"testing"
	"time"

	"github.com/libp2p/go-libp2p/core/network"
	"github.com/libp2p/go-libp2p/core/peer"
	"github.com/libp2p/go-libp2p/core/protocol"
)

func TestVerifC07Mesh(t *testing.T) {
	vRun(t, "C07.mesh", vCount(2000, 40000), func(c *vCase) {
		c.Bubble(func() {
			params := gsParams(c)
			th := PeerScoreThresholds{GossipThreshold: -100, PublishThreshold: -200, GraylistThreshold: -300, AcceptPXThreshold: 1000,
				OpportunisticGraftThreshold: []float64{0, 1, 4, 8}[c.Intn(4)]}
			scoring := c.Chance(0.8)
			w := gsNewWorld(c, gsConfig{params: params, th: th, scoring: scoring, nPups: c.Range(4, 20) + min(6, params.D), floodSub: 0.1})
			if w == nil {
				return
			}
			defer w.Close()
			classes := map[string]int{}
			fail := func(cause map[string]string, s0, s1 *vGSnap, format string, args ...any) {
				h := w.hist
				if len(h) > 60 {
					h = h[len(h)-60:]
				}
				extra := ""
				if s0 != nil && s1 != nil {
					extra = fmt.Sprintf("\n mesh before: %s\n mesh after:  %s", gsTopicNames(w.r.n, s0.Mesh), gsTopicNames(w.r.n, s1.Mesh))
				}
				c.Violatef(cause, "D=%d Dlo=%d Dhi=%d Dscore=%d Dout=%d oppTicks=%d oppPeers=%d oppTh=%v scoring=%v: %s%s\n scores=%s\n recent history=%v",
					params.D, params.Dlo, params.Dhi, params.Dscore, params.Dout, params.OpportunisticGraftTicks, params.OpportunisticGraftPeers,
					th.OpportunisticGraftThreshold, scoring, fmt.Sprintf(format, args...), extra, c06Scores(w.r.n, w.app.Copy()), h)
			}
			// ---- I7 at every snapshot + admission rule for remote GRAFT
			structural := func(s *vGSnap, where string) {
				for tn, mesh := range s.Mesh {
					if s.MySubs[tn] == 0 && s.MyRelays[tn] == 0 {
						fail(map[string]string{"kind": "mesh_for_unjoined_topic"}, nil, nil, "%s: mesh exists for %s which is not joined", where, tn)
					}
					for p := range mesh {
						// connected = we have an outbound stream, or at least a live connection while our writer is being respawned
						if _, ok := s.Peers[p]; !ok && w.nd.h.Network().Connectedness(p) != network.Connected {
							fail(map[string]string{"kind": "mesh_member_not_connected"}, nil, nil, "%s: mesh member %s of %s is not a connected router peer", where, w.r.Name(p), tn)
						}
					}
					if _, ok := s.Fanout[tn]; ok {
						fail(map[string]string{"kind": "fanout_for_joined_topic"}, nil, nil, "%s: fanout state exists for joined topic %s", where, tn)
					}
				}
				for tn, n := range s.MySubs {
					if _, ok := s.Mesh[tn]; !ok && n > 0 {
						fail(map[string]string{"kind": "no_mesh_for_joined_topic"}, nil, nil, "%s: topic %s is joined but has no mesh", where, tn)
					}
				}
			}
			// every attached, subscribed puppet GRAFTs at once: the mesh reaches or passes Dhi (outbound peers are admitted
			// beyond it), so the next heartbeat has to cut it back
			w.extraOps = append(w.extraOps, func(w *gsWorld) *gsOp {
				tn := w.topics[0]
				k := 0
				for _, gp := range w.pups {
					if gp.attached && gp.subbed[tn] {
						w.send(gp, vGraftRPC(tn))
						k++
					}
				}
				if k == 0 {
					return &gsOp{Kind: "noop"}
				}
				vSettle(5 * time.Millisecond)
				return &gsOp{Kind: "graftall", Topic: tn, Arg: uint64(k), T: time.Now(), After: w.nd.Snap()}
			})
			// the node publishes to a topic it has not joined (a fanout set appears), every member of that set goes away (the
			// set stays, empty, until it expires), and the node joins the topic at once
			w.extraOps = append(w.extraOps, func(w *gsWorld) *gsOp {
				tn := w.topics[0]
				if w.subs[tn] != nil {
					return &gsOp{Kind: "noop"}
				}
				w.handle(tn).Publish(context.Background(), []byte(fmt.Sprintf("fanout-%d", len(w.hist))))
				vSettle(5 * time.Millisecond)
				k := 0
				for p := range w.nd.Snap().Fanout[tn] {
					if gp := w.byID[p]; gp != nil && gp.attached {
						w.detach(gp)
						k++
					}
				}
				vSettle(20 * time.Millisecond)
				s, err := w.handle(tn).Subscribe()
				if err != nil {
					return &gsOp{Kind: "noop"}
				}
				w.subs[tn] = s
				vSettle(5 * time.Millisecond)
				return &gsOp{Kind: "join_after_fanout_left", Topic: tn, Arg: uint64(k), T: time.Now(), After: w.nd.Snap()}
			})
			w.afterOp = func(op *gsOp) {
				if op.After != nil {
					structural(op.After, op.Kind)
				}
				if op.Before != nil && op.After != nil && (op.Kind == "join" || op.Kind == "leave") {
					grafted, pruned, _ := w.WireCtl(op.Marks, op.Topic)
					if op.Kind == "leave" {
						for p := range op.Before.Mesh[op.Topic] {
							gp := w.byID[p]
							if _, conn := op.After.Peers[p]; conn && gp != nil && gp.attached && len(pruned[p]) == 0 {
								fail(map[string]string{"kind": "removal_without_prune", "on": "leave"}, nil, nil, "leave(%s): mesh member %s got no PRUNE", op.Topic, w.r.Name(p))
							}
						}
						classes["leave"]++
					} else if _, was := op.Before.Mesh[op.Topic]; !was {
						for p := range op.After.Mesh[op.Topic] {
							gp := w.byID[p]
							if gp != nil && gp.attached && len(grafted[p]) == 0 {
								fail(map[string]string{"kind": "addition_without_graft", "on": "join"}, nil, nil, "join(%s): new mesh member %s got no GRAFT", op.Topic, w.r.Name(p))
							}
							why := ""
							if _, d := op.Before.Direct[p]; d {
								why = "direct"
							} else if exp, bo := op.Before.Backoff[op.Topic][p]; bo && op.T.Before(exp) {
								why = "backoff"
							} else if w.score(p) < 0 {
								why = "negative_score"
							}
							if why != "" {
								fail(map[string]string{"kind": "bad_addition", "why": why, "on": "join"}, nil, nil, "join(%s) added %s (%s)", op.Topic, w.r.Name(p), why)
							}
						}
						classes["join"]++
					}
				}
				if op.Kind != "graft" || op.Before == nil || op.After == nil {
					return
				}
				p := op.Pup.p.ID()
				_, was := op.Before.Mesh[op.Topic][p]
				_, is := op.After.Mesh[op.Topic][p]
				if was || !is {
					classes["remote_graft_refused_or_noop"]++
					return
				}
				classes["remote_graft_admitted"]++
				b := op.Before
				if _, d := b.Direct[p]; d {
					fail(map[string]string{"kind": "graft_admitted", "why": "direct"}, nil, nil, "GRAFT from direct peer %s admitted", op.Pup.p.name)
				}
				if exp, ok := b.Backoff[op.Topic][p]; ok && op.T.Before(exp) {
					fail(map[string]string{"kind": "graft_admitted", "why": "backoff"}, nil, nil, "GRAFT from %s admitted %v before its backoff expires", op.Pup.p.name, exp.Sub(op.T))
				}
				if w.score(p) < 0 {
					fail(map[string]string{"kind": "graft_admitted", "why": "negative_score"}, nil, nil, "GRAFT from %s with score %v admitted", op.Pup.p.name, w.score(p))
				}
				if len(b.Mesh[op.Topic]) >= params.Dhi && !b.Outbound[p] {
					fail(map[string]string{"kind": "graft_admitted", "why": "mesh_full_inbound"}, nil, nil, "GRAFT from inbound peer %s admitted with |mesh|=%d >= Dhi", op.Pup.p.name, len(b.Mesh[op.Topic]))
				}
			}
			// ---- heartbeat invariants
			w.onTick = func(k int, s0, s1 *vGSnap, evs []vEvt, marks []int) {
				structural(s1, "after heartbeat")
				now := s1.T
				oppTick := uint64(k)%params.OpportunisticGraftTicks == 0
				// the pre-tick snapshot may be up to a heartbeat old: a stream that was (re)opened or closed
				// between it and the tick changes what the router knows about the peer's protocol
				protoAtTick := func(p peer.ID) protocol.ID {
					pr := s0.Peers[p]
					for _, e := range evs {
						if e.Peer != p {
							continue
						}
						switch e.Kind {
						case "newout":
							pr = protocol.ID(e.Reason)
						case "closedout":
							pr = ""
						case "graft":
							return pr
						}
					}
					return pr
				}
				// wire: GRAFT / PRUNE per puppet and topic since the pre-tick marks
				grafted, pruned := map[string]bool{}, map[string]bool{}
				for j, gp := range w.pups {
					for _, wr := range gp.p.WireSince(marks[j]) {
						for _, g := range wr.RPC.GetControl().GetGraft() {
							grafted[string(gp.p.ID())+"|"+g.GetTopicID()] = true
						}
						for _, pr := range wr.RPC.GetControl().GetPrune() {
							pruned[string(gp.p.ID())+"|"+pr.GetTopicID()] = true
						}
					}
				}
				for tn, M0 := range s0.Mesh {
					M1, ok := s1.Mesh[tn]
					if !ok {
						continue
					}
					A := map[peer.ID]bool{}
					nNeg := 0
					for p := range M0 {
						if w.score(p) < 0 {
							nNeg++
						} else {
							A[p] = true
						}
					}
					// candidates
					var required, optional int
					for p := range s0.Topics[tn] {
						if _, in := M0[p]; in {
							continue
						}
						if !GossipSubDefaultFeatures(GossipSubFeatureMesh, s0.Peers[p]) {
							continue
						}
						if _, d := s0.Direct[p]; d {
							continue
						}
						if w.score(p) < 0 {
							continue
						}
						if exp, bo := s0.Backoff[tn][p]; bo {
							if !now.Before(exp) {
								optional++
							}
							continue
						}
						required++
					}
					// I1
					for p := range M1 {
						if w.score(p) < 0 {
							fail(map[string]string{"kind": "negative_in_mesh"}, s0, s1, "tick %d topic %s: %s with score %v is in the mesh after the heartbeat", k, tn, w.r.Name(p), w.score(p))
						}
					}
					kept := 0
					for p := range A {
						if _, ok := M1[p]; ok {
							kept++
						}
					}
					outA := 0
					for p := range A {
						if s0.Outbound[p] {
							outA++
						}
					}
					var added []peer.ID
					for p := range M1 {
						if _, ok := M0[p]; !ok {
							added = append(added, p)
						}
					}
					class := "steady"
					switch {
					case len(A) < params.Dlo:
						class = "under"
						// I2
						if kept != len(A) {
							fail(map[string]string{"kind": "under_subscribed_member_lost"}, s0, s1, "tick %d topic %s: |A|=%d < Dlo but only %d of them kept", k, tn, len(A), kept)
						}
						want := min(params.D, len(A)+required)
						if len(M1) < want {
							fail(map[string]string{"kind": "under_subscribed_not_grown"}, s0, s1, "tick %d topic %s: mesh had %d (<Dlo=%d) eligible members and %d required candidates (%d optional) but has %d after the heartbeat, want >= %d",
								k, tn, len(A), params.Dlo, required, optional, len(M1), want)
						}
					case len(A) >= params.Dhi:
						class = "over"
						// I3
						if kept != params.D {
							fail(map[string]string{"kind": "over_subscribed_not_cut_to_D"}, s0, s1, "tick %d topic %s: |A|=%d >= Dhi=%d but %d of them remain, want D=%d", k, tn, len(A), params.Dhi, kept, params.D)
						}
						// Dscore best
						var sc []float64
						for p := range A {
							sc = append(sc, w.score(p))
						}
						sort.Sort(sort.Reverse(sort.Float64Slice(sc)))
						if params.Dscore > 0 && params.Dscore <= len(sc) {
							v := sc[params.Dscore-1]
							nGE := 0
							for _, x := range sc {
								if x >= v {
									nGE++
								}
							}
							for p := range A {
								s := w.score(p)
								if s > v || (s == v && nGE <= params.Dscore) {
									if _, ok := M1[p]; !ok {
										fail(map[string]string{"kind": "best_scoring_member_pruned"}, s0, s1, "tick %d topic %s: %s (score %v) is among the Dscore=%d best but was pruned", k, tn, w.r.Name(p), s, params.Dscore)
									}
								}
							}
						}
						outKept := 0
						for p := range A {
							if _, ok := M1[p]; ok && s0.Outbound[p] {
								outKept++
							}
						}
						if outKept < min(params.Dout, outA) {
							fail(map[string]string{"kind": "outbound_quota_not_kept"}, s0, s1, "tick %d topic %s: kept %d outbound members, want >= min(Dout=%d, available=%d)", k, tn, outKept, params.Dout, outA)
						}
					default:
						// I4
						if kept != len(A) {
							fail(map[string]string{"kind": "steady_member_lost"}, s0, s1, "tick %d topic %s: Dlo <= |A|=%d < Dhi but only %d kept", k, tn, len(A), kept)
						}
					}
					// I5: additions
					bound := 0
					if len(A) < params.Dlo {
						bound += params.D - len(A)
					}
					bound += params.Dout
					if oppTick {
						bound += params.OpportunisticGraftPeers
					}
					if len(added) > bound {
						fail(map[string]string{"kind": "too_many_additions"}, s0, s1, "tick %d topic %s: %d additions, bound %d (opportunistic tick=%v)", k, tn, len(added), bound, oppTick)
					}
					if !oppTick && len(A) >= params.Dlo && outA >= params.Dout && len(added) > 0 {
						fail(map[string]string{"kind": "unjustified_addition"}, s0, s1, "tick %d topic %s: %d additions although the mesh had %d >= Dlo members, %d >= Dout outbound and this is no opportunistic tick", k, tn, len(added), len(A), outA)
					}
					for _, p := range added {
						why := ""
						switch {
						case s0.Topics[tn] == nil:
							why = "not_in_topic"
						case !GossipSubDefaultFeatures(GossipSubFeatureMesh, protoAtTick(p)):
							why = "not_mesh_capable"
						case w.score(p) < 0:
							why = "negative_score"
						}
						if _, ok := s0.Topics[tn][p]; !ok && why == "" {
							why = "not_in_topic"
						}
						if protoAtTick(p) == "" && why == "" {
							why = "not_connected"
						}
						if _, d := s0.Direct[p]; d && why == "" {
							why = "direct"
						}
						if exp, bo := s0.Backoff[tn][p]; bo && now.Before(exp) && why == "" {
							why = "backoff"
						}
						if why != "" {
							fail(map[string]string{"kind": "bad_addition", "why": why}, s0, s1, "tick %d topic %s: heartbeat added %s (%s)", k, tn, w.r.Name(p), why)
						}
						// I6: GRAFT on the wire
						if gp := w.byID[p]; gp != nil && gp.attached && !grafted[string(p)+"|"+tn] {
							fail(map[string]string{"kind": "addition_without_graft"}, s0, s1, "tick %d topic %s: %s was added to the mesh but no GRAFT reached it", k, tn, w.r.Name(p))
						}
					}
					for p := range M0 {
						if _, ok := M1[p]; ok {
							continue
						}
						if _, conn := s1.Peers[p]; !conn {
							continue
						}
						if gp := w.byID[p]; gp != nil && gp.attached && !pruned[string(p)+"|"+tn] {
							fail(map[string]string{"kind": "removal_without_prune"}, s0, s1, "tick %d topic %s: %s was removed from the mesh but no PRUNE reached it", k, tn, w.r.Name(p))
						}
					}
					classes[class]++
					if nNeg > 0 {
						classes["negative_pruned"]++
					}
					if len(added) > 0 {
						classes["additions"]++
					}
					if oppTick && len(added) > 0 && len(A) >= params.Dlo {
						classes["opportunistic_or_quota"]++
					}
					c.State(tn, len(M0), len(M1), nNeg, class, len(added), oppTick)
				}
				c.Count("heartbeats", 1)
			}
			w.Populate(0.8, 0.8)
			if c.Chance(0.8) {
				s, err := w.handle("t").Subscribe()
				if err == nil {
					w.subs["t"] = s
				}
			}
			w.RunTicks(c.Range(8, 30), 4)
			for k, v := range classes {
				c.Count("class:"+k, v)
			}
			var ks []string
			for k := range classes {
				ks = append(ks, k)
			}
			sort.Strings(ks)
			c.Sig(params.D, params.Dlo, params.Dhi, params.Dscore, params.Dout, params.OpportunisticGraftTicks, strings.Join(ks, ","))
			c.Nontrivial(len(ks) >= 3)
			if c.Idx < 2 {
				h := w.hist
				if len(h) > 30 {
					h = h[:30]
				}
				c.Sample(map[string]any{"params": fmt.Sprintf("D=%d Dlo=%d Dhi=%d Dscore=%d Dout=%d", params.D, params.Dlo, params.Dhi, params.Dscore, params.Dout),
					"puppets": len(w.pups), "first_ops": h, "classes": classes})
			}
		})
	})
}

var _ = time.Second

// C07.retry — "every peer the node adds on its own initiative is sent GRAFT and every still-connected peer it
// removes is sent PRUNE" when the peer's outbound queue is full at that moment: the control message is dropped,
// kept for retry and has to go out once the queue has room. Peers' queues hold one or two RPCs and puppets stop
// reading at random; an obligation is opened by every mesh change the node makes on its own (raw-tracer Graft /
// Prune callbacks outside the handling of a remote GRAFT / PRUNE), closed by the RPC that carries the message
// being accepted by the peer's queue (SendRPC), and voided when the mesh change is undone or the stream ends.
// After the history every puppet reads again, six quiet heartbeats pass, and no obligation may be left.
func TestVerifC07Retry(t *testing.T) {
	vRun(t, "C07.retry", vCount(1000, 15000), func(c *vCase) {
		c.Bubble(func() {
			params := gsParams(c)
			th := PeerScoreThresholds{GossipThreshold: -100, PublishThreshold: -200, GraylistThreshold: -300, AcceptPXThreshold: 1000, OpportunisticGraftThreshold: 1}
			qsz := c.Range(1, 2)
			w := gsNewWorld(c, gsConfig{params: params, th: th, scoring: c.Chance(0.7), nPups: c.Range(4, 12), floodSub: 0,
				opts: []Option{WithPeerOutboundQueueSize(qsz)}})
			if w == nil {
				return
			}
			defer w.Close()
			type key struct {
				p peer.ID
				t string
			}
			type oblig struct {
				kind  string
				since time.Time
				drops int
			}
			pend := map[key]*oblig{}
			classes := map[string]int{}
			mark := 0
			absorb := func(opCtx string, theOp *gsOp) {
				evs := w.nd.tr.Since(mark)
				mark += len(evs)
				for _, e := range evs {
					ctx, op := opCtx, theOp
					if op != nil && e.T.Before(op.T) {
						ctx, op = "heartbeat", nil
					}
					k := key{e.Peer, e.Topic}
					switch e.Kind {
					case "graft":
						remote := op != nil && op.Topic == e.Topic && (ctx == "graftall" || (ctx == "graft" && op.Pup != nil && op.Pup.p.ID() == e.Peer))
						if remote {
							delete(pend, k)
							classes["added_on_remote_graft"]++
						} else {
							pend[k] = &oblig{kind: "GRAFT", since: e.T}
							classes["added_on_own_initiative"]++
						}
					case "prune":
						remote := op != nil && ctx == "prune" && op.Topic == e.Topic && op.Pup != nil && op.Pup.p.ID() == e.Peer
						if remote {
							delete(pend, k)
							classes["removed_on_remote_prune"]++
						} else {
							pend[k] = &oblig{kind: "PRUNE", since: e.T}
							classes["removed_on_own_initiative"]++
						}
					case "closedout":
						for q := range pend {
							if q.p == e.Peer {
								delete(pend, q)
							}
						}
					case "send", "drop":
						if e.RPC == nil {
							continue
						}
						for _, g := range e.RPC.GetControl().GetGraft() {
							q := key{e.Peer, g.GetTopicID()}
							if o := pend[q]; o != nil && o.kind == "GRAFT" {
								if e.Kind == "send" {
									delete(pend, q)
									if o.drops > 0 {
										classes["graft_sent_after_drop"]++
									} else {
										classes["graft_sent_at_once"]++
									}
								} else {
									o.drops++
								}
							}
						}
						for _, pr := range e.RPC.GetControl().GetPrune() {
							q := key{e.Peer, pr.GetTopicID()}
							if o := pend[q]; o != nil && o.kind == "PRUNE" {
								if e.Kind == "send" {
									delete(pend, q)
									if o.drops > 0 {
										classes["prune_sent_after_drop"]++
									} else {
										classes["prune_sent_at_once"]++
									}
								} else {
									o.drops++
								}
							}
						}
					}
				}
			}
			w.afterOp = func(op *gsOp) { absorb(op.Kind, op) }
			w.onTick = func(k int, s0, s1 *vGSnap, evs []vEvt, marks []int) {
				absorb("heartbeat", nil)
				c.Count("heartbeats", 1)
			}
			stallOp := func(w *gsWorld) *gsOp {
				gp := w.pups[c.Intn(len(w.pups))]
				op := &gsOp{Kind: "stall", Pup: gp, T: time.Now()}
				if gp.p.stalled {
					gp.p.Unstall()
					op.Kind = "unstall"
				} else {
					gp.p.Stall()
				}
				vSettle(5 * time.Millisecond)
				return op
			}
			graftAll := func(w *gsWorld) *gsOp {
				tn := w.topics[0]
				op := &gsOp{Kind: "graftall", Topic: tn, T: time.Now()}
				k := 0
				for _, gp := range w.pups {
					if gp.attached && gp.subbed[tn] {
						w.send(gp, vGraftRPC(tn))
						k++
					}
				}
				if k == 0 {
					return &gsOp{Kind: "noop"}
				}
				vSettle(5 * time.Millisecond)
				op.Arg = uint64(k)
				return op
			}
			w.extraOps = append(w.extraOps, stallOp, stallOp, stallOp, graftAll)
			w.Populate(0.9, 0.9)
			// a good part of the puppets is not reading from the start: the GRAFTs of the first join meet full queues
			for _, gp := range w.pups {
				if c.Chance(0.4) {
					gp.p.Stall()
				}
			}
			if c.Chance(0.85) {
				if s, err := w.handle("t").Subscribe(); err == nil {
					w.subs["t"] = s
				}
			}
			vSettle(5 * time.Millisecond)
			absorb("init", nil)
			w.RunTicks(c.Range(8, 30), 4)
			if c.Stopped() {
				return
			}
			// quiescence: everybody reads again, nothing else happens
			for _, gp := range w.pups {
				gp.p.Unstall()
			}
			vSettle(5 * time.Millisecond)
			absorb("unstall", nil)
			before := len(pend)
			w.RunTicks(6, 0)
			if c.Stopped() {
				return
			}
			last := w.nd.Snap()
			for q, o := range pend {
				gp := w.byID[q.p]
				if gp == nil || !gp.attached {
					continue
				}
				if _, ok := last.QPeers[q.p]; !ok {
					continue
				}
				_, inMesh := last.Mesh[q.t][q.p]
				if (o.kind == "GRAFT") != inMesh {
					// the change was undone without a callback (the peer left and came back, the topic was left)
					continue
				}
				h := w.hist
				if len(h) > 50 {
					h = h[len(h)-50:]
				}
				c.Violatef(map[string]string{"kind": "control_message_never_sent", "what": o.kind, "dropped": fmt.Sprint(o.drops > 0)},
					"queue size %d: the node changed its mesh for %s with %s at +%v on its own initiative (in mesh now: %v) but no %s was accepted by that peer's queue since (%d attempts dropped), six quiet heartbeats after every peer resumed reading\n recent history=%v",
					qsz, q.t, w.r.Name(q.p), o.since.Sub(w.r.born), inMesh, o.kind, o.drops, h)
				return
			}
			for k, v := range classes {
				c.Count("class:"+k, v)
			}
			c.Count("obligations_open_when_reading_resumed", before)
			var ks []string
			for k := range classes {
				ks = append(ks, k)
			}
			sort.Strings(ks)
			c.Sig(qsz, strings.Join(ks, ","), before > 0)
			c.Nontrivial(classes["graft_sent_after_drop"]+classes["prune_sent_after_drop"] > 0)
			c.State(qsz, strings.Join(ks, ","), min(before, 4))
			if c.Idx < 2 {
				h := w.hist
				if len(h) > 30 {
					h = h[:30]
				}
				c.Sample(map[string]any{"queue_size": qsz, "puppets": len(w.pups), "first_ops": h, "classes": classes, "open_when_reading_resumed": before})
			}
		})
	})
}
