//go:build verif

package pubsub

// gsWorld: one gossipsub node with scoring driven by the application score,
// a population of puppets, and a PRNG history of operations executed strictly
// between heartbeat ticks. Monitors (C07, C08, C09, C17) plug in observers.

import (
	"context"
	"fmt"
	"sort"
	"time"

	pb "github.com/libp2p/go-libp2p-pubsub/pb"
	"github.com/libp2p/go-libp2p/core/peer"
	"github.com/libp2p/go-libp2p/core/protocol"
)

type gsPup struct {
	p          *vPuppet
	proto      protocol.ID
	attached   bool
	nodeDialed bool
	subbed     map[string]bool
	direct     bool
}

type gsOp struct {
	Kind   string // attach detach sub unsub graft prune join leave score direct undirect wait publish closein closeout_detach
	Pup    *gsPup
	Topic  string
	Arg    uint64
	T      time.Time
	Before *vGSnap
	After  *vGSnap
	Marks  []int // puppet wire positions before the op (when Before is set)
}

type gsWorld struct {
	c       *vCase
	r       *vRig
	nd      *vNode
	params  GossipSubParams
	th      PeerScoreThresholds
	app     *vScores
	pups    []*gsPup
	byID    map[peer.ID]*gsPup
	topics  []string
	subs    map[string]*Subscription
	handles map[string]*Topic
	hist    []string
	kinds   map[string]int
	scoring bool

	// observers
	afterOp func(op *gsOp)
	onTick  func(k int, s0, s1 *vGSnap, evs []vEvt, marks []int)

	lastTick int
	extraOps []func(w *gsWorld) *gsOp
}

type gsConfig struct {
	params   GossipSubParams
	th       PeerScoreThresholds
	scoring  bool
	nPups    int
	opts     []Option
	floodSub float64 // share of floodsub puppets
	bpWeight float64 // behaviour-penalty weight (0 = off)
	bpDecay  float64
}

func gsNewWorld(c *vCase, cfg gsConfig) *gsWorld {
	w := &gsWorld{c: c, r: vNewRig(c), params: cfg.params, th: cfg.th, app: newVScores(), byID: map[peer.ID]*gsPup{},
		topics: []string{"t", "u"}, subs: map[string]*Subscription{}, handles: map[string]*Topic{}, kinds: map[string]int{}, scoring: cfg.scoring}
	for i := 0; i < cfg.nPups; i++ {
		pr := vAllGossipProtos[c.Intn(4)]
		if c.Chance(cfg.floodSub) {
			pr = FloodSubID
		}
		gp := &gsPup{p: w.r.NewPuppet(fmt.Sprintf("p%d", i), pr, ""), proto: pr, subbed: map[string]bool{}}
		w.pups = append(w.pups, gp)
		w.byID[gp.p.ID()] = gp
	}
	opts := []Option{WithGossipSubParams(cfg.params)}
	if cfg.scoring {
		sp := &PeerScoreParams{AppSpecificScore: w.app.Get, AppSpecificWeight: 1, DecayInterval: time.Hour, DecayToZero: 0.01,
			Topics: map[string]*TopicScoreParams{}}
		if cfg.bpWeight != 0 {
			sp.BehaviourPenaltyWeight = cfg.bpWeight
			sp.BehaviourPenaltyDecay = cfg.bpDecay
		}
		th := cfg.th
		opts = append(opts, WithPeerScore(sp, &th))
	}
	opts = append(opts, cfg.opts...)
	if err := w.r.Start("gossipsub", opts...); err != nil {
		c.Inconclusive("node: %v", err)
		return nil
	}
	w.nd = w.r.nd
	return w
}

func (w *gsWorld) Close() { w.r.Close() }

func (w *gsWorld) note(f string, a ...any) {
	s := fmt.Sprintf("+%v ", time.Since(w.r.born).Round(time.Millisecond)) + fmt.Sprintf(f, a...)
	w.hist = append(w.hist, s)
	w.c.Logf("%s", s)
}

func (w *gsWorld) handle(tn string) *Topic {
	if t := w.handles[tn]; t != nil {
		return t
	}
	t, err := w.nd.ps.Join(tn)
	if err != nil {
		panic(err)
	}
	w.handles[tn] = t
	return t
}

func (w *gsWorld) score(p peer.ID) float64 {
	if !w.scoring {
		return 0
	}
	return w.app.Get(p)
}

func (w *gsWorld) attach(gp *gsPup) bool {
	if gp.attached {
		return false
	}
	gp.nodeDialed = w.c.Chance(0.5)
	if err := w.r.Attach(gp.p, gp.nodeDialed); err != nil {
		return false
	}
	gp.attached = true
	gp.subbed = map[string]bool{}
	return true
}

func (w *gsWorld) detach(gp *gsPup) {
	w.r.n.Disconnect(w.nd.ID(), gp.p.ID())
	gp.attached = false
	gp.p.ForgetStreams()
}

func (w *gsWorld) send(gp *gsPup, rpc *pb.RPC) {
	if gp.attached {
		gp.p.Send(w.nd.ID(), rpc)
	}
}

// Populate attaches most puppets and subscribes them.
func (w *gsWorld) Populate(attachP, subP float64) {
	for _, gp := range w.pups {
		if w.scoring {
			w.app.Set(gp.p.ID(), []float64{0, 0, 0, 1, 3, 7, -1, -4}[w.c.Intn(8)])
		}
		if w.c.Chance(attachP) && w.attach(gp) {
			for _, tn := range w.topics {
				if w.c.Chance(subP) {
					w.send(gp, vSubRPC(true, tn))
					gp.subbed[tn] = true
				}
			}
		}
	}
	vSettle(20 * time.Millisecond)
}

// Step executes one PRNG operation (never on a tick) and reports it.
func (w *gsWorld) Step() *gsOp {
	c := w.c
	gp := w.pups[c.Intn(len(w.pups))]
	tn := w.topics[0]
	if c.Chance(0.25) {
		tn = w.topics[1]
	}
	op := &gsOp{Pup: gp, Topic: tn}
	needSnap := false
	k := c.Intn(20 + len(w.extraOps)*3)
	if k >= 20 {
		f := w.extraOps[(k-20)/3]
		return w.finish(f(w))
	}
	switch k {
	case 0:
		op.Kind = "attach"
	case 1:
		op.Kind = "detach"
	case 2, 3:
		if gp.subbed[tn] {
			op.Kind = "unsub"
		} else {
			op.Kind = "sub"
		}
	case 4, 5, 6:
		op.Kind = "graft"
		needSnap = true
	case 7, 8:
		op.Kind = "prune"
		op.Arg = []uint64{0, 0, 1, 2, 5, 9}[c.Intn(6)]
		needSnap = true
	case 9, 10:
		if w.subs[tn] != nil {
			op.Kind = "leave"
		} else {
			op.Kind = "join"
		}
		needSnap = true
	case 11, 12:
		op.Kind = "score"
	case 13:
		if gp.direct {
			op.Kind = "undirect"
		} else if c.Chance(0.4) {
			op.Kind = "direct"
		} else {
			op.Kind = "wait"
		}
	case 14:
		op.Kind = "publish"
	case 15:
		if c.Chance(0.3) {
			op.Kind = "closein"
		} else if c.Chance(0.4) {
			op.Kind = "closeout_detach"
		} else {
			op.Kind = "wait"
		}
	default:
		op.Kind = "wait"
	}
	if needSnap {
		op.Before = w.nd.Snap()
		op.Marks = make([]int, len(w.pups))
		for j, q := range w.pups {
			op.Marks[j] = q.p.WireLen()
		}
	}
	op.T = time.Now()
	switch op.Kind {
	case "attach":
		if !w.attach(gp) {
			op.Kind = "noop"
		}
	case "detach":
		if !gp.attached {
			op.Kind = "noop"
		} else {
			w.detach(gp)
		}
	case "sub", "unsub":
		if !gp.attached {
			op.Kind = "noop"
		} else {
			w.send(gp, vSubRPC(op.Kind == "sub", tn))
			gp.subbed[tn] = op.Kind == "sub"
		}
	case "graft":
		if !gp.attached {
			op.Kind = "noop"
		} else {
			w.send(gp, vGraftRPC(tn))
		}
	case "prune":
		if !gp.attached {
			op.Kind = "noop"
		} else {
			rpc := vPruneRPC(op.Arg, tn)
			if c.Chance(0.4) {
				// peer exchange records ride along (whether the node uses them depends on the sender's score; the PRUNE
				// itself and its backoff count either way)
				for k, K := 0, c.Range(1, 3); k < K; k++ {
					id, _, rec := c09Record(c, w.r.n)
					rpc.Control.Prune[0].Peers = append(rpc.Control.Prune[0].Peers, &pb.PeerInfo{PeerID: []byte(id), SignedPeerRecord: rec})
				}
			}
			w.send(gp, rpc)
		}
	case "join":
		s, err := w.handle(tn).Subscribe()
		if err != nil {
			op.Kind = "noop"
		} else {
			w.subs[tn] = s
		}
	case "leave":
		w.subs[tn].Cancel()
		delete(w.subs, tn)
	case "score":
		if !w.scoring {
			op.Kind = "noop"
		} else {
			v := []float64{0, 0, 1, 2, 5, 5, 9, -0.5, -3, -30}[c.Intn(10)]
			w.app.Set(gp.p.ID(), v)
			op.Arg = uint64(int64(v * 10))
		}
	case "direct":
		w.nd.ps.AddDirectPeer(peer.AddrInfo{ID: gp.p.ID()})
		gp.direct = true
	case "undirect":
		w.nd.ps.RemoveDirectPeer(gp.p.ID())
		gp.direct = false
	case "publish":
		w.handle(tn).Publish(context.Background(), []byte(fmt.Sprintf("m-%d", len(w.hist))))
	case "closeout_detach":
		if !gp.attached {
			op.Kind = "noop"
		} else {
			// the puppet leaves in two steps: its own stream first, the connection (and with it the node's stream) a moment later
			gp.p.CloseOut(w.nd.ID(), true)
			vSettle(20 * time.Millisecond)
			w.detach(gp)
		}
	case "closein":
		if !gp.attached {
			op.Kind = "noop"
		} else {
			// the puppet resets the node's outbound stream; connection and the puppet's own stream survive
			gp.p.CloseIn(w.nd.ID(), true)
		}
	case "wait":
	}
	vSettle(5 * time.Millisecond)
	if needSnap && op.Kind != "noop" {
		op.After = w.nd.Snap()
	}
	return w.finish(op)
}

func (w *gsWorld) finish(op *gsOp) *gsOp {
	if op == nil || op.Kind == "noop" {
		return op
	}
	w.kinds[op.Kind]++
	name := ""
	if op.Pup != nil {
		name = op.Pup.p.name
	}
	w.note("%s(%s,%s,%d)", op.Kind, name, op.Topic, op.Arg)
	if w.afterOp != nil {
		w.afterOp(op)
	}
	return op
}

// RunTicks drives the world across n heartbeat ticks: PRNG operations in each
// gap, a snapshot just before the tick, one just after.
func (w *gsWorld) RunTicks(n int, maxOpsPerGap int) {
	c := w.c
	// position inside the first gap; afterwards every iteration crosses exactly one tick
	w.r.ToNextGap(time.Duration(c.Range(20, 200)) * time.Millisecond)
	for i := 0; i < n && !c.Violated(); i++ {
		if c.Chance(0.5) {
			vSettle(time.Duration(c.Range(10, 600)) * time.Millisecond)
		}
		nops := c.Range(0, maxOpsPerGap)
		for j := 0; j < nops && !c.Violated(); j++ {
			w.Step()
		}
		// bracket the next tick
		s0 := w.nd.Snap()
		t0 := w.nd.tr.Len()
		marks := make([]int, len(w.pups))
		for j, gp := range w.pups {
			marks[j] = gp.p.WireLen()
		}
		w.r.ToNextGap(5 * time.Millisecond)
		vSettle(10 * time.Millisecond)
		s1 := w.nd.Snap()
		if s1.Ticks != s0.Ticks+1 {
			c.Inconclusive("expected exactly one heartbeat between snapshots, got %d", s1.Ticks-s0.Ticks)
			return
		}
		if w.onTick != nil {
			w.onTick(int(s1.Ticks), s0, s1, w.nd.tr.Since(t0), marks)
		}
	}
}

// WireCtl reports which puppets got GRAFT / PRUNE for topic since marks.
func (w *gsWorld) WireCtl(marks []int, topic string) (grafted, pruned map[peer.ID][]*pb.ControlPrune, graftT map[peer.ID]time.Time) {
	grafted, pruned = map[peer.ID][]*pb.ControlPrune{}, map[peer.ID][]*pb.ControlPrune{}
	graftT = map[peer.ID]time.Time{}
	for j, gp := range w.pups {
		for _, wr := range gp.p.WireSince(marks[j]) {
			for _, g := range wr.RPC.GetControl().GetGraft() {
				if g.GetTopicID() == topic {
					grafted[gp.p.ID()] = append(grafted[gp.p.ID()], nil)
					graftT[gp.p.ID()] = wr.T
				}
			}
			for _, pr := range wr.RPC.GetControl().GetPrune() {
				if pr.GetTopicID() == topic {
					pruned[gp.p.ID()] = append(pruned[gp.p.ID()], pr)
				}
			}
		}
	}
	return
}

func (w *gsWorld) KindList() []string {
	var ks []string
	for k := range w.kinds {
		ks = append(ks, k)
	}
	sort.Strings(ks)
	return ks
}

// gsParams draws a parameter set accepted by GossipSubParams.validate().
func gsParams(c *vCase) GossipSubParams {
	p := vFastParams()
	if c.Chance(0.08) {
		p.D, p.Dlo, p.Dhi, p.Dout, p.Dscore = 0, 0, 0, 0, 0
	} else if c.Chance(0.35) {
		// larger degrees: an outbound quota of 2..3 and over-subscription need them
		p.Dlo = c.Range(4, 6)
		p.D = p.Dlo + c.Range(0, 3)
		p.Dhi = p.D + c.Range(0, 3)
		p.Dout = 0
		for p.Dout+1 < p.Dlo && p.Dout+1 < p.D/2 && c.Chance(0.85) {
			p.Dout++
		}
		p.Dscore = c.Range(0, max(0, p.D-p.Dout))
	} else {
		p.Dlo = c.Range(1, 4)
		p.D = max(2, p.Dlo+c.Range(0, 2))
		p.Dhi = p.D + c.Range(0, 3)
		p.Dout = 0
		for p.Dout+1 < p.Dlo && p.Dout+1 < p.D/2 && c.Chance(0.6) {
			p.Dout++
		}
		p.Dscore = c.Range(0, max(0, p.D-p.Dout))
	}
	p.Dlazy = c.Range(1, 4)
	p.OpportunisticGraftTicks = []uint64{1, 2, 60}[c.Intn(3)]
	p.OpportunisticGraftPeers = c.Range(1, 2)
	p.PruneBackoff = time.Duration(c.Range(3, 8)) * time.Second
	p.UnsubscribeBackoff = time.Duration(c.Range(1, 3)) * time.Second
	p.GraftFloodThreshold = time.Duration(c.Range(1, 2)) * time.Second
	p.FanoutTTL = 5 * time.Second
	if err := p.validate(); err != nil {
		panic(err)
	}
	return p
}

func gsTopicNames(n *vNet, m map[string]map[peer.ID]struct{}) string {
	var ts []string
	for t := range m {
		ts = append(ts, t)
	}
	sort.Strings(ts)
	s := ""
	for _, t := range ts {
		s += fmt.Sprintf("%s=%v ", t, vPeerNames(n, m[t]))
	}
	return s
}
