//go:build verif

package pubsub

// C17 monitor (a): gossip stays within its protocol bounds and message-cache
// windows, observed on the wire of puppet peers, heartbeat by heartbeat.
// G1 IHAVE content/recipients, G2 IWANT service window + retransmission cap +
// IDONTWANT, G3 the node's own IWANTs and IHAVE flood caps, G4 IDONTWANT sent
// by the node, G5 IDONTWANT caps and TTL honoured, G6 promise penalties.

import (
	"context"
	"fmt"
	"slices"
	"sort"
	"strings"
	"testing"
	"time"

	pb "github.com/libp2p/go-libp2p-pubsub/pb"
	"github.com/libp2p/go-libp2p/core/peer"
)

type c17GMsg struct {
	id      string
	size    int
	putTick int     // heartbeats run when the node put it in its cache
	sender  peer.ID // forwarder ("" = local)
	at      time.Time
}

func c17Data(id string, size int) []byte {
	b := make([]byte, max(size, len(id)))
	copy(b, id)
	for i := len(id); i < len(b); i++ {
		b[i] = 'x'
	}
	return b
}

func c17ID(m *pb.Message) string {
	d := m.GetData()
	if len(d) >= 5 {
		return string(d[:5])
	}
	return string(d)
}

func TestVerifC17Gossip(t *testing.T) {
	vRun(t, "C17.gossip", vCount(400, 30000), func(c *vCase) {
		c.Bubble(func() {
			params := vFastParams()
			params.D, params.Dlo, params.Dhi, params.Dscore, params.Dout = 2, 1, 3, 1, 0
			params.Dlazy, params.GossipFactor = 64, 1
			params.HistoryLength = c.Range(1, 6)
			params.HistoryGossip = c.Range(1, params.HistoryLength)
			params.MaxIHaveLength = c.Range(2, 12)
			params.MaxIHaveMessages = c.Range(1, 4)
			params.GossipRetransmission = c.Range(1, 3)
			params.MaxIDontWantLength = c.Range(2, 6)
			params.MaxIDontWantMessages = c.Range(1, 3)
			params.IDontWantMessageTTL = c.Range(1, 4)
			params.IDontWantMessageThreshold = []int{64, 128, 512}[c.Intn(3)]
			params.IWantFollowupTime = time.Duration(c.Range(1, 3)) * time.Second
			params.PruneBackoff, params.UnsubscribeBackoff = time.Minute, 10*time.Second
			th := PeerScoreThresholds{GossipThreshold: -100, PublishThreshold: -200, GraylistThreshold: -300, AcceptPXThreshold: 1000, OpportunisticGraftThreshold: 0}
			nP := c.Range(4, 9)
			w := gsNewWorld(c, gsConfig{params: params, th: th, scoring: true, nPups: nP, floodSub: 0,
				opts: []Option{WithMessageIdFn(c17ID), WithPeerOutboundQueueSize(256)}})
			if w == nil {
				return
			}
			defer w.Close()
			nd, me := w.nd, w.nd.ID()
			for _, gp := range w.pups {
				if !w.attach(gp) {
					c.Inconclusive("attach")
					return
				}
				w.send(gp, vSubRPC(true, "t"))
			}
			vSettle(10 * time.Millisecond)
			if _, err := w.handle("t").Subscribe(); err != nil {
				panic(err)
			}
			w.r.ToNextGap(30 * time.Millisecond)
			classes := map[string]int{}
			fail := func(cause map[string]string, format string, args ...any) {
				h := w.hist
				if len(h) > 70 {
					h = h[len(h)-70:]
				}
				c.Violatef(cause, "H=%d G=%d MaxIHaveLen=%d MaxIHaveMsgs=%d Retx=%d MaxIDWLen=%d MaxIDWMsgs=%d IDWTTL=%d IDWThreshold=%d followup=%v: %s\n recent history=%v",
					params.HistoryLength, params.HistoryGossip, params.MaxIHaveLength, params.MaxIHaveMessages, params.GossipRetransmission, params.MaxIDontWantLength,
					params.MaxIDontWantMessages, params.IDontWantMessageTTL, params.IDontWantMessageThreshold, params.IWantFollowupTime, fmt.Sprintf(format, args...), h)
			}
			msgs := map[string]*c17GMsg{}
			var order []string
			arrived := map[string]time.Time{} // first time the node saw the id (validate / publish)
			nextID := 1
			newID := func() string { s := fmt.Sprintf("m%04d", nextID); nextID++; return s }
			ticks := func() int { return w.r.HBIndex(time.Now()) }
			// per (puppet, id): IWANT served count; IDONTWANT honoured until tick
			served := map[string]int{}
			unwantedUntil := map[string]int{} // key p|id -> first tick at which it is no longer honoured
			type pkey = string
			pk := func(p peer.ID, id string) pkey { return string(p) + "|" + id }
			// per (puppet, heartbeat interval) flood counters
			ihaveRPCs := map[string]int{}
			asked := map[string]int{}
			idwRPCs := map[string]int{}
			hk := func(p peer.ID) string { return fmt.Sprintf("%s|%d", p, ticks()) }
			// promises: IWANT RPCs the node sent to puppets
			type promise struct {
				p    peer.ID
				ids  []string
				sent time.Time
			}
			var promises []promise
			sizes := []int{16, params.IDontWantMessageThreshold - 1, params.IDontWantMessageThreshold, params.IDontWantMessageThreshold + 40, 900}
			meshNow := func() map[peer.ID]struct{} { return nd.Snap().Mesh["t"] }
			v12 := func(gp *gsPup) bool { return gp.proto == GossipSubID_v12 || gp.proto == GossipSubID_v13 }
			marksOf := func() []int {
				m := make([]int, len(w.pups))
				for i, gp := range w.pups {
					m[i] = gp.p.WireLen()
				}
				return m
			}
			// checkPush: after a message entered the node, verify IDONTWANT emission (G4) and suppression of the push (G5)
			checkPush := func(m *c17GMsg, marks []int, mesh map[peer.ID]struct{}) {
				for i, gp := range w.pups {
					p := gp.p.ID()
					gotMsg, gotIDW := false, false
					for _, wr := range gp.p.WireSince(marks[i]) {
						for _, pm := range wr.RPC.Publish {
							if c17ID(pm) == m.id {
								gotMsg = true
							}
						}
						for _, d := range wr.RPC.GetControl().GetIdontwant() {
							for _, id := range d.MessageIDs {
								if id == m.id {
									gotIDW = true
								}
							}
						}
					}
					_, inMesh := mesh[p]
					// G4 (only-if)
					if gotIDW {
						why := ""
						switch {
						case m.size < params.IDontWantMessageThreshold:
							why = "small_message"
						case !inMesh:
							why = "non_mesh_peer"
						case !v12(gp):
							why = "peer_below_v1.2"
						case p == m.sender:
							why = "sender"
						}
						if why != "" {
							fail(map[string]string{"kind": "idontwant_sent", "why": why}, "node sent IDONTWANT(%s) to %s (%s): size=%d mesh=%v proto=%s sender=%s", m.id, gp.p.name, why, m.size, inMesh, gp.proto, w.r.Name(m.sender))
						}
						classes["idontwant_sent_ok"]++
					} else if inMesh && v12(gp) && p != m.sender && m.size >= params.IDontWantMessageThreshold {
						classes["idontwant_expected_not_seen"]++
					}
					// G5: honoured IDONTWANT suppresses the push, others do not
					if inMesh && p != m.sender {
						until, declared := unwantedUntil[pk(p, m.id)]
						switch {
						case declared && ticks() < until:
							if gotMsg {
								fail(map[string]string{"kind": "unwanted_message_pushed"}, "%s declared %s unwanted (honoured until tick %d, now %d) but was pushed the message", gp.p.name, m.id, until, ticks())
							}
							classes["push_suppressed"]++
						default:
							if !gotMsg {
								k := "mesh_push_missing"
								if declared {
									k = "idontwant_honoured_too_long"
								} else if _, over := unwantedUntil["over|"+pk(p, m.id)]; over {
									k = "idontwant_beyond_cap_honoured"
								}
								fail(map[string]string{"kind": k}, "mesh member %s was not pushed %s (declared=%v until=%d now=%d)", gp.p.name, m.id, declared, until, ticks())
							}
							if declared {
								classes["idontwant_expired_pushed"]++
							} else if _, over := unwantedUntil["over|"+pk(p, m.id)]; over {
								classes["idontwant_beyond_cap_pushed"]++
							}
						}
					}
				}
			}
			record := func(id string, size int, sender peer.ID) *c17GMsg {
				m := &c17GMsg{id: id, size: size, putTick: ticks(), sender: sender, at: time.Now()}
				msgs[id] = m
				order = append(order, id)
				if _, ok := arrived[id]; !ok {
					arrived[id] = time.Now()
				}
				return m
			}
			var unseenPool []string // ids advertised by puppets that do not exist (yet)
			nGaps := c.Range(6, 18)
			for g := 0; g < nGaps && !c.Violated(); g++ {
				nops := c.Range(1, 6)
				var lastIHave *gsPup
				for o := 0; o < nops && !c.Violated(); o++ {
					gp := w.pups[c.Intn(nP)]
					opk := c.Intn(8)
					if lastIHave != nil && c.Chance(0.35) {
						// several advertisements from one peer inside one heartbeat interval share its request budget
						gp, opk = lastIHave, 3
					}
					if opk == 3 {
						lastIHave = gp
					}
					p := gp.p.ID()
					switch opk {
					case 0, 1: // local publish
						id := newID()
						size := sizes[c.Intn(len(sizes))]
						mesh := meshNow()
						marks := marksOf()
						w.note("publish(%s,size=%d)", id, size)
						if err := w.handle("t").Publish(context.Background(), c17Data(id, size)); err != nil {
							continue
						}
						vSettle(10 * time.Millisecond)
						checkPush(record(id, size, me), marks, mesh)
					case 2: // forwarded by a puppet
						id := newID()
						size := sizes[c.Intn(len(sizes))]
						mesh := meshNow()
						marks := marksOf()
						w.note("forward(%s,%s,size=%d)", gp.p.name, id, size)
						w.send(gp, vMsgRPC(vSignedMsg(gp.p.key, "t", vSeqno(uint64(nextID)), c17Data(id, size))))
						vSettle(10 * time.Millisecond)
						checkPush(record(id, size, p), marks, mesh)
					case 3: // IHAVE from a puppet
						var ids []string
						n := c.Range(1, params.MaxIHaveLength+4)
						for i := 0; i < n; i++ {
							switch {
							case c.Chance(0.3) && len(order) > 0:
								ids = append(ids, order[c.Intn(len(order))]) // already seen
							case c.Chance(0.2) && len(unseenPool) > 0:
								ids = append(ids, unseenPool[c.Intn(len(unseenPool))])
							default:
								id := fmt.Sprintf("x%04d", nextID)
								nextID++
								unseenPool = append(unseenPool, id)
								ids = append(ids, id)
							}
						}
						tt := "t"
						mark := gp.p.WireLen()
						w.note("ihave(%s,%v)", gp.p.name, ids)
						w.send(gp, &pb.RPC{Control: &pb.ControlMessage{Ihave: []*pb.ControlIHave{{TopicID: &tt, MessageIDs: ids}}}})
						vSettle(10 * time.Millisecond)
						var req []string
						nIWant := 0
						for _, wr := range gp.p.WireSince(mark) {
							for _, iw := range wr.RPC.GetControl().GetIwant() {
								nIWant++
								req = append(req, iw.MessageIDs...)
							}
						}
						k := hk(p)
						ihaveRPCs[k]++
						// expected: unseen ids among the first MaxIHaveLength entries, deduplicated, truncated to the remaining budget
						want := map[string]bool{}
						for i, id := range ids {
							if i >= params.MaxIHaveLength {
								break
							}
							if _, seen := arrived[id]; !seen {
								want[id] = true
							}
						}
						budget := params.MaxIHaveLength - asked[k]
						expect := min(len(want), max(budget, 0))
						if ihaveRPCs[k] > params.MaxIHaveMessages {
							expect = 0
						}
						for _, id := range req {
							if _, seen := arrived[id]; seen {
								fail(map[string]string{"kind": "iwant_for_seen_id"}, "node requested %s from %s although it has seen it", id, gp.p.name)
							}
							if !want[id] {
								fail(map[string]string{"kind": "iwant_for_unadvertised_id"}, "node requested %s which %s did not advertise within the first MaxIHaveLength ids", id, gp.p.name)
							}
						}
						if len(req) < expect {
							// the statement gives upper bounds only ("at most"); honouring fewer is not a violation
							// (any control RPC, not just IHAVE, advances the per-heartbeat IHAVE message counter)
							classes["ihave_honoured_less_than_cap"]++
						}
						if len(req) > expect {
							kind := "iwant_count"
							switch {
							case ihaveRPCs[k] > params.MaxIHaveMessages && len(req) > 0:
								kind = "ihave_message_cap_exceeded"
							case asked[k]+len(req) > params.MaxIHaveLength:
								kind = "ihave_length_cap_exceeded"
							}
							fail(map[string]string{"kind": kind}, "IHAVE #%d of this heartbeat from %s (%d ids, %d unseen within cap, %d already asked): node requested %d ids, want %d",
								ihaveRPCs[k], gp.p.name, len(ids), len(want), asked[k], len(req), expect)
						}
						asked[k] += len(req)
						if len(req) > 0 {
							promises = append(promises, promise{p: p, ids: append([]string(nil), req...), sent: time.Now()})
							classes["iwant_sent"]++
						} else {
							classes["ihave_not_followed"]++
						}
					case 4: // IWANT from a puppet
						if len(order) == 0 {
							continue
						}
						var ids []string
						for i, n := 0, c.Range(1, 3); i < n; i++ {
							ids = append(ids, order[c.Intn(len(order))])
						}
						mark := gp.p.WireLen()
						w.note("iwant(%s,%v)", gp.p.name, ids)
						w.send(gp, &pb.RPC{Control: &pb.ControlMessage{Iwant: []*pb.ControlIWant{{MessageIDs: ids}}}})
						vSettle(10 * time.Millisecond)
						got := map[string]int{}
						for _, wr := range gp.p.WireSince(mark) {
							for _, pm := range wr.RPC.Publish {
								got[c17ID(pm)]++
							}
						}
						now := ticks()
						seenReq := map[string]bool{}
						for _, id := range ids {
							if seenReq[id] {
								continue // same id twice in one IWANT is answered at most once
							}
							seenReq[id] = true
							m := msgs[id]
							inWindow := now < m.putTick+params.HistoryLength
							n := 0
							for _, x := range ids {
								if x == id {
									n++
								}
							}
							until, declared := unwantedUntil[pk(p, id)]
							unw := declared && now < until
							want := false
							if inWindow && !unw {
								// every occurrence counts as a request; served while the count stays within the cap
								if served[pk(p, id)]+1 <= params.GossipRetransmission {
									want = true
								}
								served[pk(p, id)] += n
							}
							if (got[id] > 0) != want {
								kind := "iwant_not_served"
								switch {
								case got[id] > 0 && !inWindow:
									kind = "iwant_served_outside_history"
								case got[id] > 0 && unw:
									kind = "iwant_served_unwanted"
								case got[id] > 0:
									kind = "iwant_retransmission_cap_exceeded"
								}
								fail(map[string]string{"kind": kind}, "IWANT(%s) from %s: served=%v want=%v (age %d ticks, history %d, previously served %d, unwanted=%v)",
									id, gp.p.name, got[id] > 0, want, now-m.putTick, params.HistoryLength, served[pk(p, id)]-n, unw)
							}
							classes[fmt.Sprintf("iwant/%v", want)]++
						}
					case 5, 6: // IDONTWANT from a puppet, for messages that will be published later
						nRPC := 1
						if c.Chance(0.3) {
							nRPC = c.Range(2, params.MaxIDontWantMessages+2)
						}
						for rI := 0; rI < nRPC; rI++ {
							var ids []string
							n := c.Range(1, params.MaxIDontWantLength+3)
							for i := 0; i < n; i++ {
								ids = append(ids, fmt.Sprintf("m%04d", nextID+c.Intn(6)))
							}
							if c.Chance(0.2) && len(order) > 0 {
								ids[0] = order[len(order)-1] // an existing message: affects IWANT service
							}
							k := hk(p)
							idwRPCs[k]++
							w.note("idontwant(%s,%v)#%d", gp.p.name, ids, idwRPCs[k])
							// the ids travel in one entry or spread over several entries of the same RPC (the length cap is per RPC)
							var entries []*pb.ControlIDontWant
							if len(ids) > 1 && c.Chance(0.5) {
								cut := c.Range(1, len(ids)-1)
								entries = []*pb.ControlIDontWant{{MessageIDs: ids[:cut]}, {MessageIDs: ids[cut:]}}
								if len(ids)-cut > 1 && c.Chance(0.4) {
									cut2 := cut + c.Range(1, len(ids)-cut-1)
									entries = []*pb.ControlIDontWant{{MessageIDs: ids[:cut]}, {MessageIDs: ids[cut:cut2]}, {MessageIDs: ids[cut2:]}}
								}
							} else {
								entries = []*pb.ControlIDontWant{{MessageIDs: ids}}
							}
							w.send(gp, &pb.RPC{Control: &pb.ControlMessage{Idontwant: entries}})
							vSettle(5 * time.Millisecond)
							for i, id := range ids {
								if idwRPCs[k] <= params.MaxIDontWantMessages && i < params.MaxIDontWantLength {
									unwantedUntil[pk(p, id)] = ticks() + params.IDontWantMessageTTL
									delete(unwantedUntil, "over|"+pk(p, id))
								} else if _, ok := unwantedUntil[pk(p, id)]; !ok {
									unwantedUntil["over|"+pk(p, id)] = 1
								}
							}
						}
					case 7: // deliver a promised (advertised) message: fulfils promises
						if len(unseenPool) == 0 {
							continue
						}
						i := c.Intn(len(unseenPool))
						id := unseenPool[i]
						unseenPool = append(unseenPool[:i], unseenPool[i+1:]...)
						size := sizes[c.Intn(len(sizes))]
						mesh := meshNow()
						marks := marksOf()
						w.note("deliver_promised(%s,%s)", gp.p.name, id)
						w.send(gp, vMsgRPC(vSignedMsg(gp.p.key, "t", vSeqno(uint64(nextID)), c17Data(id, size))))
						nextID++
						vSettle(10 * time.Millisecond)
						checkPush(record(id, size, p), marks, mesh)
					}
				}
				// ---- cross one heartbeat
				bpBefore := nd.Snap().BP
				marks := marksOf()
				tickNo := ticks() + 1
				w.r.ToNextGap(20 * time.Millisecond)
				snap := nd.Snap()
				now := time.Now()
				// G6: promise penalties (only-if)
				for _, gp := range w.pups {
					p := gp.p.ID()
					delta := snap.BP[p] - bpBefore[p]
					broken := 0
					var kept []promise
					for _, pr := range promises {
						if pr.p != p {
							continue
						}
						due := pr.sent.Add(params.IWantFollowupTime)
						if !due.Before(now) {
							continue
						}
						for _, id := range pr.ids {
							if a, ok := arrived[id]; !ok || a.After(due) {
								broken++
								break
							}
						}
					}
					if delta > float64(broken) {
						fail(map[string]string{"kind": "promise_penalty_unjustified"}, "behaviour penalty of %s rose by %v at tick %d but only %d of its IWANT promises are overdue with a message that did not arrive in time", gp.p.name, delta, tickNo, broken)
					}
					if delta > 0 {
						classes["promise_penalised"]++
					}
					_ = kept
				}
				// drop promises that are overdue (they have been judged) to keep the bound tight
				var rest []promise
				for _, pr := range promises {
					if !pr.sent.Add(params.IWantFollowupTime).Before(now) {
						rest = append(rest, pr)
					}
				}
				promises = rest
				// G1: IHAVE emitted at this heartbeat
				for i, gp := range w.pups {
					p := gp.p.ID()
					for _, wr := range gp.p.WireSince(marks[i]) {
						for _, ih := range wr.RPC.GetControl().GetIhave() {
							classes["ihave_emitted"]++
							if _, in := snap.Mesh["t"][p]; in {
								fail(map[string]string{"kind": "ihave_to_mesh_member"}, "IHAVE sent to mesh member %s at tick %d", gp.p.name, tickNo)
							}
							if len(ih.MessageIDs) > params.MaxIHaveLength {
								fail(map[string]string{"kind": "ihave_too_long"}, "IHAVE to %s carries %d ids > MaxIHaveLength", gp.p.name, len(ih.MessageIDs))
							}
							for _, id := range ih.MessageIDs {
								m := msgs[id]
								if m == nil {
									fail(map[string]string{"kind": "ihave_unknown_id"}, "IHAVE advertises %q which the node never forwarded", id)
									continue
								}
								if !(m.putTick < tickNo && tickNo <= m.putTick+params.HistoryGossip) {
									fail(map[string]string{"kind": "ihave_outside_gossip_window"}, "tick %d: IHAVE to %s advertises %s put at tick %d (HistoryGossip=%d)", tickNo, gp.p.name, id, m.putTick, params.HistoryGossip)
								}
							}
						}
					}
				}
				c.Count("heartbeats", 1)
				c.State(tickNo%7, len(snap.Mesh["t"]), len(msgs)%5, len(promises))
			}
			for k, v := range classes {
				c.Count("class:"+k, v)
			}
			var ks []string
			for k := range classes {
				ks = append(ks, k)
			}
			sort.Strings(ks)
			c.Sig(params.HistoryLength, params.HistoryGossip, params.MaxIHaveLength, params.MaxIHaveMessages, params.GossipRetransmission, params.IDontWantMessageTTL, strings.Join(ks, ","))
			c.Nontrivial(len(ks) >= 5)
			if c.Idx < 2 {
				h := w.hist
				if len(h) > 30 {
					h = h[:30]
				}
				c.Sample(map[string]any{"params": fmt.Sprintf("H=%d G=%d MaxIHaveLen=%d MaxIHaveMsgs=%d Retx=%d IDWTTL=%d", params.HistoryLength, params.HistoryGossip, params.MaxIHaveLength, params.MaxIHaveMessages, params.GossipRetransmission, params.IDontWantMessageTTL),
					"first_ops": h, "classes": classes})
			}
		})
	})
}

// C17.promise — a peer is penalised for a broken IWANT promise only if the
// requested message really did not arrive from anyone within the follow-up
// time. One advertiser per promise, the message arrives (from the advertiser
// or from somebody else) before / after the deadline or never, and the node's
// validators take anything from no time to longer than the follow-up time
// (a message that sits in validation has arrived).
func TestVerifC17Promise(t *testing.T) {
	vRun(t, "C17.promise", vCount(300, 20000), func(c *vCase) {
		c.Bubble(func() {
			params := vFastParams()
			params.D, params.Dlo, params.Dhi, params.Dscore, params.Dout = 2, 1, 3, 1, 0
			params.IWantFollowupTime = time.Duration(c.Range(1, 3)) * time.Second
			params.MaxIHaveLength, params.MaxIHaveMessages = 50, 20
			if c.Chance(0.5) {
				// a small request budget: an advertisement of several IDs is only partly requested
				params.MaxIHaveLength = c.Range(1, 4)
			}
			F := params.IWantFollowupTime
			th := PeerScoreThresholds{GossipThreshold: -1e6, PublishThreshold: -2e6, GraylistThreshold: -3e6, AcceptPXThreshold: 1000, OpportunisticGraftThreshold: 0}
			valDelay := []time.Duration{0, 0, 200 * time.Millisecond, F + 1500*time.Millisecond, F + 2500*time.Millisecond}[c.Intn(5)]
			valInline := c.Chance(0.3)
			slow := func(ctx context.Context, p peer.ID, m *Message) ValidationResult {
				if valDelay > 0 {
					time.Sleep(valDelay) // takes its time whatever its context says
				}
				return ValidationAccept
			}
			w := gsNewWorld(c, gsConfig{params: params, th: th, scoring: true, nPups: c.Range(2, 5), floodSub: 0, bpWeight: -1, bpDecay: 0.999,
				opts: []Option{WithMessageIdFn(c17ID), WithDefaultValidator(slow, WithValidatorInline(valInline), WithValidatorTimeout(time.Minute))}})
			if w == nil {
				return
			}
			defer w.Close()
			nd := w.nd
			for _, gp := range w.pups {
				if !w.attach(gp) {
					c.Inconclusive("attach")
					return
				}
				w.send(gp, vSubRPC(true, "t"))
			}
			vSettle(10 * time.Millisecond)
			if _, err := w.handle("t").Subscribe(); err != nil {
				panic(err)
			}
			w.r.ToNextGap(30 * time.Millisecond)
			type promise struct {
				id      string
				ids     []string // what the node really asked for out of the advertisement
				adv     *gsPup
				asked   time.Time
				arrival string // how the message arrives
				arrived time.Time
			}
			var ps []*promise
			classes := map[string]int{}
			nProm := c.Range(1, 5)
			seq := uint64(1)
			for k := 0; k < nProm; k++ {
				adv := w.pups[c.Intn(len(w.pups))]
				id := fmt.Sprintf("q%04d", k)
				tt := "t"
				mark := adv.p.WireLen()
				advIDs := []string{id}
				E := []int{0, 0, 2, 5, 9}[c.Intn(5)]
				if valInline && valDelay > 200*time.Millisecond {
					// (slow inline validators occupy the validation workers, one per CPU: more messages than workers would
					// wait in the validation queue, where the node has not looked at them yet; see DESIGN.md 0.5)
					E = 0
				}
				for e := 0; e < E; e++ {
					advIDs = append(advIDs, fmt.Sprintf("x%02d%02d", k, e))
				}
				w.send(adv, &pb.RPC{Control: &pb.ControlMessage{Ihave: []*pb.ControlIHave{{TopicID: &tt, MessageIDs: advIDs}}}})
				vSettle(10 * time.Millisecond)
				var asked []string
				for _, wr := range adv.p.WireSince(mark) {
					for _, iw := range wr.RPC.GetControl().GetIwant() {
						for _, x := range iw.GetMessageIDs() {
							if slices.Contains(advIDs, x) {
								asked = append(asked, x)
							}
						}
					}
				}
				if len(asked) == 0 {
					classes["not_requested"]++
					continue
				}
				if len(asked) < len(advIDs) {
					classes["partly_requested"]++
				}
				p := &promise{id: id, ids: asked, adv: adv, asked: time.Now(), arrival: []string{"in_time", "in_time", "in_time_from_other", "late", "never", "just_in_time"}[c.Intn(6)]}
				ps = append(ps, p)
				w.note("promise(%s by %s, arrival %s)", id, adv.p.name, p.arrival)
			}
			// deliveries, in order of their offsets
			type delivery struct {
				p    *promise
				at   time.Duration
				from *gsPup
			}
			var ds []delivery
			for _, p := range ps {
				from := p.adv
				var at time.Duration
				switch p.arrival {
				case "in_time":
					at = time.Duration(c.Range(1, int(F/time.Millisecond)/2)) * time.Millisecond
				case "just_in_time":
					at = F - 30*time.Millisecond
				case "in_time_from_other":
					at = time.Duration(c.Range(1, int(F/time.Millisecond)/2)) * time.Millisecond
					for _, q := range w.pups {
						if q != p.adv {
							from = q
						}
					}
				case "late":
					at = F + time.Duration(c.Range(1200, 2500))*time.Millisecond
				case "never":
					continue
				}
				ds = append(ds, delivery{p, at, from})
			}
			sort.Slice(ds, func(i, j int) bool { return ds[i].at < ds[j].at })
			start := time.Now()
			bp0 := nd.Snap().BP
			for _, d := range ds {
				if wait := d.at - time.Since(start); wait > 0 {
					time.Sleep(wait)
				}
				// everything that was asked for out of this advertisement arrives together
				for _, x := range d.p.ids {
					seq++
					w.send(d.from, vMsgRPC(vSignedMsg(d.from.p.key, "t", vSeqno(seq), c17Data(x, 40))))
				}
				d.p.arrived = time.Now()
				w.note("deliver(%s from %s)", d.p.id, d.from.p.name)
			}
			// past every deadline, every late arrival and every validation, plus two heartbeats
			time.Sleep(F + 3*time.Second + valDelay + 2*params.HeartbeatInterval - time.Since(start))
			vSettle(50 * time.Millisecond)
			bp := nd.Snap().BP
			// per advertiser: promises that were broken (nothing arrived by asked + follow-up time)
			for _, gp := range w.pups {
				broken, kept := 0, 0
				for _, p := range ps {
					if p.adv != gp {
						continue
					}
					due := p.asked.Add(F)
					if p.arrived.IsZero() || p.arrived.After(due) {
						broken++
					} else {
						kept++
					}
				}
				delta := bp[gp.p.ID()] - bp0[gp.p.ID()]
				// decay 0.999 per decay interval keeps the counter within 1 % over the run
				if delta > float64(broken)+0.01 {
					h := w.hist
					c.Violatef(map[string]string{"kind": "promise_penalty_unjustified", "validation": map[bool]string{true: "slower_than_followup", false: "fast"}[valDelay > F]},
						"followup=%v validator delay=%v inline=%v: behaviour penalty of %s rose by %v with %d broken and %d kept promises\n history=%v", F, valDelay, valInline, gp.p.name, delta, broken, kept, h)
					return
				}
				if broken > 0 && delta < 0.5 {
					classes["broken_not_penalised"]++ // the statement only says "only if"
				}
				if broken > 0 {
					classes["broken"]++
				}
				if kept > 0 {
					classes["kept"]++
				}
			}
			var ks []string
			for k, v := range classes {
				c.Count("class:"+k, v)
				ks = append(ks, k)
			}
			sort.Strings(ks)
			c.Count("promises", len(ps))
			c.Sig(F, valDelay, valInline, strings.Join(ks, ","), len(ps))
			c.Nontrivial(len(ps) > 0)
			c.State(valDelay > F, strings.Join(ks, ","))
			if c.Idx < 2 {
				c.Sample(map[string]any{"followup": F.String(), "validator_delay": valDelay.String(), "promises": len(ps), "classes": classes, "history": w.hist})
			}
		})
	})
}
