//go:build verif

package pubsub

// Real nodes on the virtual network, a recording RawTracer, and ground-truth
// snapshots taken inside the event loop (DESIGN.md 2.3).

import (
	"context"
	"fmt"
	"log/slog"
	"os"
	"sort"
	"sync"
	"sync/atomic"
	"time"

	"github.com/libp2p/go-libp2p/core/peer"
	"github.com/libp2p/go-libp2p/core/protocol"
)

type vEvt struct {
	T      time.Time
	Kind   string // newout closedout join leave graft prune validate deliver reject dup throttle recv send drop undeliverable
	Peer   peer.ID
	Topic  string
	ID     string
	Reason string
	From   peer.ID // ReceivedFrom for message events
	RPC    *RPC
}

// vTrace records every RawTracer callback (they run in the event loop, or in a
// validation goroutine) with virtual timestamps.
type vTrace struct {
	hook atomic.Pointer[func(kind string)] // called first in every callback (i.e. inside the event loop or a validation goroutine)
	mu   sync.Mutex
	evts []vEvt
	idf  func(*Message) string
	born time.Time
}

func (t *vTrace) bornOr() time.Time {
	if t.born.IsZero() {
		return time.Now()
	}
	return t.born
}

func (t *vTrace) add(e vEvt) {
	if h := t.hook.Load(); h != nil {
		(*h)(e.Kind)
	}
	e.T = time.Now()
	t.mu.Lock()
	t.evts = append(t.evts, e)
	t.mu.Unlock()
}

func (t *vTrace) Events() []vEvt {
	t.mu.Lock()
	defer t.mu.Unlock()
	return append([]vEvt(nil), t.evts...)
}

func (t *vTrace) Len() int {
	t.mu.Lock()
	defer t.mu.Unlock()
	return len(t.evts)
}

func (t *vTrace) Since(i int) []vEvt {
	t.mu.Lock()
	defer t.mu.Unlock()
	if i > len(t.evts) {
		i = len(t.evts)
	}
	return append([]vEvt(nil), t.evts[i:]...)
}

func (t *vTrace) mid(m *Message) string {
	if t.idf != nil {
		return t.idf(m)
	}
	return ""
}

func (t *vTrace) OnNewOutboundStream(p peer.ID, proto protocol.ID) {
	t.add(vEvt{Kind: "newout", Peer: p, Reason: string(proto)})
}
func (t *vTrace) OnClosedOutboundStream(p peer.ID) { t.add(vEvt{Kind: "closedout", Peer: p}) }
func (t *vTrace) Join(topic string)                { t.add(vEvt{Kind: "join", Topic: topic}) }
func (t *vTrace) Leave(topic string)               { t.add(vEvt{Kind: "leave", Topic: topic}) }
func (t *vTrace) Graft(p peer.ID, topic string)    { t.add(vEvt{Kind: "graft", Peer: p, Topic: topic}) }
func (t *vTrace) Prune(p peer.ID, topic string)    { t.add(vEvt{Kind: "prune", Peer: p, Topic: topic}) }
func (t *vTrace) ValidateMessage(m *Message) {
	t.add(vEvt{Kind: "validate", Topic: m.GetTopic(), ID: t.mid(m), From: m.ReceivedFrom})
}
func (t *vTrace) DeliverMessage(m *Message) {
	t.add(vEvt{Kind: "deliver", Topic: m.GetTopic(), ID: t.mid(m), From: m.ReceivedFrom})
}
func (t *vTrace) RejectMessage(m *Message, reason string) {
	t.add(vEvt{Kind: "reject", Topic: m.GetTopic(), ID: t.mid(m), From: m.ReceivedFrom, Reason: reason})
}
func (t *vTrace) DuplicateMessage(m *Message) {
	t.add(vEvt{Kind: "dup", Topic: m.GetTopic(), ID: t.mid(m), From: m.ReceivedFrom})
}
func (t *vTrace) ThrottlePeer(p peer.ID) { t.add(vEvt{Kind: "throttle", Peer: p}) }
func (t *vTrace) RecvRPC(rpc *RPC)       { t.add(vEvt{Kind: "recv", Peer: rpc.from, RPC: vCloneRPC(rpc)}) }
func (t *vTrace) SendRPC(rpc *RPC, p peer.ID) {
	t.add(vEvt{Kind: "send", Peer: p, RPC: vCloneRPC(rpc)})
}
func (t *vTrace) DropRPC(rpc *RPC, p peer.ID) {
	t.add(vEvt{Kind: "drop", Peer: p, RPC: vCloneRPC(rpc)})
}

// vCloneRPC deep-copies an RPC at trace time (the library may reuse or edit
// the control message after the callback returns).
func vCloneRPC(rpc *RPC) *RPC {
	b, err := rpc.Marshal()
	if err != nil {
		return &RPC{from: rpc.from}
	}
	out := &RPC{from: rpc.from}
	if err := out.Unmarshal(b); err != nil {
		return &RPC{from: rpc.from}
	}
	return out
}
func (t *vTrace) UndeliverableMessage(m *Message) {
	t.add(vEvt{Kind: "undeliverable", Topic: m.GetTopic(), ID: t.mid(m)})
}

var _ RawTracer = (*vTrace)(nil)

type vNode struct {
	net    *vNet
	h      *vHost
	ps     *PubSub
	gs     *GossipSubRouter
	tr     *vTrace
	ctx    context.Context
	cancel context.CancelFunc
	name   string
}

func (nd *vNode) ID() peer.ID { return nd.h.ID() }

// NewNode creates a PubSub node; router is "gossipsub", "floodsub" or "randomsub".
func (n *vNet) NewNode(name, router string, opts ...Option) (*vNode, error) {
	return n.NewNodeIP(name, "", router, opts...)
}

func (n *vNet) NewNodeIP(name, ip, router string, opts ...Option) (*vNode, error) {
	h := n.NewHost(name, ip)
	ctx, cancel := context.WithCancel(context.Background())
	nd := &vNode{net: n, h: h, tr: &vTrace{born: time.Now()}, ctx: ctx, cancel: cancel, name: name}
	all := append([]Option{WithRawTracer(nd.tr)}, opts...)
	if os.Getenv("VERIF_LIBLOG") != "" {
		lg := slog.New(&vLogHandler{c: n.c, name: name})
		all = append(all, WithLogger(lg), WithRPCLogger(lg))
	}
	var err error
	switch router {
	case "gossipsub":
		nd.ps, err = NewGossipSub(ctx, h, all...)
	case "floodsub":
		nd.ps, err = NewFloodSub(ctx, h, all...)
	case "randomsub":
		size := n.rsSize
		if size == 0 {
			size = 10
		}
		nd.ps, err = NewRandomSub(ctx, h, size, all...)
	default:
		panic("router " + router)
	}
	if err != nil {
		cancel()
		return nil, err
	}
	nd.tr.idf = nd.ps.idGen.ID
	nd.gs, _ = nd.ps.rt.(*GossipSubRouter)
	return nd, nil
}

// Eval runs f inside the event loop and waits for it.
func (nd *vNode) Eval(f func()) bool {
	done := make(chan struct{})
	select {
	case nd.ps.eval <- func() { defer close(done); f() }:
		<-done
		return true
	case <-nd.ctx.Done():
		return false
	}
}

func vSorted(m map[peer.ID]struct{}) []peer.ID {
	out := make([]peer.ID, 0, len(m))
	for p := range m {
		out = append(out, p)
	}
	sort.Slice(out, func(i, j int) bool { return out[i] < out[j] })
	return out
}

func vSet(ps []peer.ID) map[peer.ID]struct{} {
	m := make(map[peer.ID]struct{}, len(ps))
	for _, p := range ps {
		m[p] = struct{}{}
	}
	return m
}

func (n *vNet) Names(ps []peer.ID) string {
	s := make([]string, len(ps))
	for i, p := range ps {
		s[i] = n.Name(p)
	}
	sort.Strings(s)
	return fmt.Sprint(s)
}

// vGSnap is a deep copy of the router state relevant to the monitors.
type vGSnap struct {
	T        time.Time
	Peers    map[peer.ID]protocol.ID
	QPeers   map[peer.ID]struct{} // PubSub.peers (outbound queue exists)
	Topics   map[string]map[peer.ID]struct{}
	MySubs   map[string]int
	MyRelays map[string]int
	Direct   map[peer.ID]struct{}
	Mesh     map[string]map[peer.ID]struct{}
	Fanout   map[string]map[peer.ID]struct{}
	Lastpub  map[string]int64
	Backoff  map[string]map[peer.ID]time.Time
	Outbound map[peer.ID]bool
	Unwanted map[peer.ID]map[checksum]int
	Scores   map[peer.ID]float64
	Ticks    uint64
	Control  map[peer.ID]struct{}
	Gossip   map[peer.ID]struct{}
	BP       map[peer.ID]float64 // behaviour penalty counters
	Invalid  map[peer.ID]float64 // invalid message deliveries, summed over topics
}

func copyPeerSetMap(m map[string]map[peer.ID]struct{}) map[string]map[peer.ID]struct{} {
	out := make(map[string]map[peer.ID]struct{}, len(m))
	for t, ps := range m {
		c := make(map[peer.ID]struct{}, len(ps))
		for p := range ps {
			c[p] = struct{}{}
		}
		out[t] = c
	}
	return out
}

// Snap takes a snapshot inside the event loop.
func (nd *vNode) Snap() *vGSnap {
	s := &vGSnap{}
	nd.Eval(func() {
		p := nd.ps
		s.T = time.Now()
		s.QPeers = map[peer.ID]struct{}{}
		for q := range p.peers {
			s.QPeers[q] = struct{}{}
		}
		s.Topics = map[string]map[peer.ID]struct{}{}
		for t, m := range p.topics {
			c := map[peer.ID]struct{}{}
			for q := range m {
				c[q] = struct{}{}
			}
			s.Topics[t] = c
		}
		s.MySubs = map[string]int{}
		for t, m := range p.mySubs {
			s.MySubs[t] = len(m)
		}
		s.MyRelays = map[string]int{}
		for t, k := range p.myRelays {
			s.MyRelays[t] = k
		}
		gs := nd.gs
		if gs == nil {
			return
		}
		s.Peers = map[peer.ID]protocol.ID{}
		for q, pr := range gs.peers {
			s.Peers[q] = pr
		}
		s.Direct = map[peer.ID]struct{}{}
		for q := range gs.direct {
			s.Direct[q] = struct{}{}
		}
		s.Mesh = copyPeerSetMap(gs.mesh)
		s.Fanout = copyPeerSetMap(gs.fanout)
		s.Lastpub = map[string]int64{}
		for t, v := range gs.lastpub {
			s.Lastpub[t] = v
		}
		s.Backoff = map[string]map[peer.ID]time.Time{}
		for t, m := range gs.backoff {
			c := map[peer.ID]time.Time{}
			for q, e := range m {
				c[q] = e
			}
			s.Backoff[t] = c
		}
		s.Outbound = map[peer.ID]bool{}
		for q, b := range gs.outbound {
			s.Outbound[q] = b
		}
		s.Unwanted = map[peer.ID]map[checksum]int{}
		for q, m := range gs.unwanted {
			c := map[checksum]int{}
			for k, v := range m {
				c[k] = v
			}
			s.Unwanted[q] = c
		}
		s.Scores = map[peer.ID]float64{}
		s.BP = map[peer.ID]float64{}
		s.Invalid = map[peer.ID]float64{}
		if gs.score != nil {
			for q := range gs.peers {
				s.Scores[q] = gs.score.Score(q)
			}
			gs.score.Lock()
			for q, st := range gs.score.peerStats {
				s.BP[q] = st.behaviourPenalty
				for _, ts := range st.topics {
					s.Invalid[q] += ts.invalidMessageDeliveries
				}
			}
			gs.score.Unlock()
		}
		s.Ticks = gs.heartbeatTicks
		s.Control = map[peer.ID]struct{}{}
		for q := range gs.control {
			s.Control[q] = struct{}{}
		}
		s.Gossip = map[peer.ID]struct{}{}
		for q := range gs.gossip {
			s.Gossip[q] = struct{}{}
		}
	})
	return s
}

// vFastParams: gossipsub parameters with 1s heartbeat and small degrees/backoffs
// so that protocol time passes quickly and small networks exercise every path.
func vFastParams() GossipSubParams {
	p := DefaultGossipSubParams()
	p.HeartbeatInitialDelay = 100 * time.Millisecond
	p.HeartbeatInterval = time.Second
	return p
}

// vScores is a thread-safe application-specific score table (read by the
// event loop, written by the harness).
type vScores struct {
	mu sync.Mutex
	m  map[peer.ID]float64
}

func newVScores() *vScores { return &vScores{m: map[peer.ID]float64{}} }

func (s *vScores) Get(p peer.ID) float64 {
	s.mu.Lock()
	defer s.mu.Unlock()
	return s.m[p]
}

func (s *vScores) Set(p peer.ID, v float64) {
	s.mu.Lock()
	s.m[p] = v
	s.mu.Unlock()
}

func (s *vScores) Copy() map[peer.ID]float64 {
	s.mu.Lock()
	defer s.mu.Unlock()
	out := make(map[peer.ID]float64, len(s.m))
	for k, v := range s.m {
		out[k] = v
	}
	return out
}

// vLogHandler routes the library's own log records into the case log (VERIF_LIBLOG=1).
type vLogHandler struct {
	c     *vCase
	name  string
	attrs []slog.Attr
}

func (h *vLogHandler) Enabled(context.Context, slog.Level) bool { return true }
func (h *vLogHandler) Handle(_ context.Context, r slog.Record) error {
	s := fmt.Sprintf("LIB[%s] %s %s", h.name, r.Level, r.Message)
	r.Attrs(func(a slog.Attr) bool {
		v := a.Value.String()
		if len(v) > 600 {
			v = v[:600]
		}
		s += fmt.Sprintf(" %s=%s", a.Key, v)
		return true
	})
	h.c.Logf("%s", s)
	return nil
}
func (h *vLogHandler) WithAttrs(a []slog.Attr) slog.Handler { return h }
func (h *vLogHandler) WithGroup(string) slog.Handler        { return h }
