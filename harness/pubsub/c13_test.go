//go:build verif

package pubsub

// C13 — all state attributable to a peer is reclaimed after it disconnects.
// A victim puppet runs a lifecycle (connection, streams opened / closed / reset
// in every order, RPCs of every kind on a stream that outlives the other
// direction, blacklisting, final disconnect); then virtual time passes every
// retention period and every per-peer map is searched for the victim's ID.

import (
	"context"
	"fmt"
	"reflect"
	"sort"
	"strings"
	"testing"
	"time"

	"github.com/libp2p/go-libp2p-pubsub/partialmessages"
	pb "github.com/libp2p/go-libp2p-pubsub/pb"
	"github.com/libp2p/go-libp2p/core/peer"
	"github.com/libp2p/go-libp2p/core/protocol"
)

// vResidue lists every per-peer structure that still mentions pid.
func vResidue(nd *vNode, pme any, pid peer.ID, topics []string) []string {
	var out []string
	add := func(s string) { out = append(out, s) }
	nd.Eval(func() {
		p := nd.ps
		if _, ok := p.peers[pid]; ok {
			add("PubSub.peers")
		}
		for t, m := range p.topics {
			if _, ok := m[pid]; ok {
				add("PubSub.topics[" + t + "]")
			}
		}
		p.inboundStreamsMx.Lock()
		if _, ok := p.inboundStreams[pid]; ok {
			add("PubSub.inboundStreams")
		}
		p.inboundStreamsMx.Unlock()
		p.newPeersPrioLk.RLock()
		p.newPeersMx.Lock()
		if _, ok := p.newPeersPend[pid]; ok {
			add("PubSub.newPeersPend")
		}
		p.newPeersMx.Unlock()
		p.newPeersPrioLk.RUnlock()
		p.peerDeadPrioLk.RLock()
		p.peerDeadMx.Lock()
		if _, ok := p.peerDeadPend[pid]; ok {
			add("PubSub.peerDeadPend")
		}
		p.peerDeadMx.Unlock()
		p.peerDeadPrioLk.RUnlock()
		p.deadPeerBackoff.mu.Lock()
		if _, ok := p.deadPeerBackoff.info[pid]; ok {
			add("PubSub.deadPeerBackoff")
		}
		p.deadPeerBackoff.mu.Unlock()
		if rs, ok := p.rt.(*RandomSubRouter); ok {
			if _, ok := rs.peers[pid]; ok {
				add("RandomSubRouter.peers")
			}
		}
		gs := nd.gs
		if gs == nil {
			return
		}
		if _, ok := gs.peers[pid]; ok {
			add("router.peers")
		}
		for t, m := range gs.mesh {
			if _, ok := m[pid]; ok {
				add("router.mesh[" + t + "]")
			}
		}
		for t, m := range gs.fanout {
			if _, ok := m[pid]; ok {
				add("router.fanout[" + t + "]")
			}
		}
		for t, m := range gs.backoff {
			if _, ok := m[pid]; ok {
				add("router.backoff[" + t + "]")
			}
		}
		for t, m := range gs.lastPrune {
			if _, ok := m[pid]; ok {
				add("router.lastPrune[" + t + "]")
			}
		}
		if _, ok := gs.gossip[pid]; ok {
			add("router.gossip")
		}
		if _, ok := gs.control[pid]; ok {
			add("router.control")
		}
		if _, ok := gs.outbound[pid]; ok {
			add("router.outbound")
		}
		if _, ok := gs.unwanted[pid]; ok {
			add("router.unwanted")
		}
		if _, ok := gs.peerhave[pid]; ok {
			add("router.peerhave")
		}
		if _, ok := gs.iasked[pid]; ok {
			add("router.iasked")
		}
		if _, ok := gs.peerdontwant[pid]; ok {
			add("router.peerdontwant")
		}
		if _, ok := gs.extensions.peerExtensions[pid]; ok {
			add("extensions.peerExtensions")
		}
		if _, ok := gs.extensions.sentExtensions[pid]; ok {
			add("extensions.sentExtensions")
		}
		if gs.score != nil {
			gs.score.Lock()
			if _, ok := gs.score.peerStats[pid]; ok {
				add("score.peerStats")
			}
			for ip, m := range gs.score.peerIPs {
				if _, ok := m[pid]; ok {
					add("score.peerIPs[" + ip + "]")
				}
			}
			for _, rec := range gs.score.deliveries.records {
				if _, ok := rec.peers[pid]; ok {
					add("score.deliveries.records[*].peers")
					break
				}
			}
			gs.score.Unlock()
		}
		if gs.gate != nil {
			gs.gate.Lock()
			if st, ok := gs.gate.peerStats[pid]; ok {
				add("gater.peerStats")
				c13GaterNote = fmt.Sprintf("gater entry: connected=%d expire=%v (now %v)", st.connected, st.expire.Format("15:04:05.000"), time.Now().Format("15:04:05.000"))
			}
			gs.gate.Unlock()
		}
		if gs.gossipTracer != nil {
			gs.gossipTracer.Lock()
			if _, ok := gs.gossipTracer.peerPromises[pid]; ok {
				add("gossipTracer.peerPromises")
			}
			for _, m := range gs.gossipTracer.promises {
				if _, ok := m[pid]; ok {
					add("gossipTracer.promises")
					break
				}
			}
			gs.gossipTracer.Unlock()
		}
		gs.tagTracer.Lock()
		for _, m := range gs.tagTracer.nearFirst {
			if _, ok := m[pid]; ok {
				add("tagTracer.nearFirst")
				break
			}
		}
		gs.tagTracer.Unlock()
		// partial-messages extension (other package): read-only reflection over its per-peer maps
		if pme != nil {
			v := reflect.ValueOf(pme).Elem()
			st := v.FieldByName("statePerTopicPerGroup")
			for it := st.MapRange(); it.Next(); {
				for it2 := it.Value().MapRange(); it2.Next(); {
					g := it2.Value().Elem()
					for it3 := g.FieldByName("peerState").MapRange(); it3.Next(); {
						if it3.Key().String() == string(pid) {
							add("partialmessages.peerState[" + it.Key().String() + "]")
						}
					}
					if g.FieldByName("initiatedBy").String() == string(pid) {
						add("partialmessages.group.initiatedBy[" + it.Key().String() + "]")
					}
				}
			}
			ctr := v.FieldByName("peerInitiatedGroupCounter")
			for it := ctr.MapRange(); it.Next(); {
				pp := it.Value().Elem().FieldByName("perPeer")
				if pp.IsNil() {
					continue
				}
				for it2 := pp.MapRange(); it2.Next(); {
					if it2.Key().String() == string(pid) {
						add("partialmessages.peerInitiatedGroupCounter[" + it.Key().String() + "]")
					}
				}
			}
		}
	})
	cm := nd.h.ConnManager()
	for _, t := range topics {
		if cm.IsProtected(pid, "pubsub:"+t) {
			add("connmgr.protect[pubsub:" + t + "]")
		}
	}
	if cm.IsProtected(pid, "pubsub:<direct>") {
		add("connmgr.protect[pubsub:<direct>]")
	}
	sort.Strings(out)
	return out
}

var c13GaterNote string

var c13RPCKinds = []string{"none", "sub", "graft", "prune", "ihave", "iwant", "idontwant", "extensions", "partial", "publish_ok", "publish_rejected", "publish_slow", "publish_dup", "graft_burst"}
var c13Endings = []string{"conn_close", "out_then_in_close", "out_then_in_reset", "in_then_out_close", "in_then_out_reset", "blacklist", "out_only_reset_then_conn", "in_only_reset_then_conn", "respawn_window"}

type c13Life struct {
	router  string
	proto   protocol.ID
	dial    bool // node dials
	refuse  bool // victim refuses the node's outbound stream
	dupIn   bool // victim opens a duplicate inbound stream
	subbed  bool
	grafted bool
	rpcs    []string // sent while fully connected
	ending  string
	mid     []string // sent between the two stream deaths, on the surviving direction
}

func (l c13Life) String() string {
	return fmt.Sprintf("router=%s proto=%s nodeDials=%v refuseOutbound=%v dupInbound=%v sub=%v graft=%v rpcs=%v ending=%s mid=%v",
		l.router, l.proto, l.dial, l.refuse, l.dupIn, l.subbed, l.grafted, l.rpcs, l.ending, l.mid)
}

func TestVerifC13Leaks(t *testing.T) {
	// enumerated short lifecycles: protocol x rpc kind x ending x (rpc before / between the deaths)
	protos := append(append([]protocol.ID{}, vAllGossipProtos...), FloodSubID)
	var enum []c13Life
	for _, pr := range protos {
		for _, k := range c13RPCKinds {
			for _, e := range c13Endings {
				for pos := 0; pos < 2; pos++ {
					l := c13Life{router: "gossipsub", proto: pr, subbed: true, ending: e}
					if pos == 0 {
						l.rpcs = []string{k}
					} else {
						if e == "conn_close" || e == "blacklist" || k == "none" {
							continue
						}
						l.mid = []string{k}
					}
					enum = append(enum, l)
				}
			}
		}
	}
	vRun(t, "C13.leaks", func(tier string) int {
		if tier == "thorough" {
			return 4*len(enum) + 40000
		}
		return 2000
	}, func(c *vCase) {
		var life c13Life
		enumerated := false
		if c.Tier == "thorough" && c.Idx < 4*len(enum) {
			// (four passes: who dials, the mesh membership and the timing inside the respawn window are drawn anew each time)
			life, enumerated = enum[c.Idx%len(enum)], true
			life.dial = c.Chance(0.5)
			life.grafted = c.Chance(0.5)
		} else if c.Tier != "thorough" && c.Idx < 1000 {
			life, enumerated = enum[(c.Idx*37+int(c.Seed%977))%len(enum)], true
			life.dial = c.Chance(0.5)
			life.grafted = c.Chance(0.5)
		} else {
			life = c13Life{router: []string{"gossipsub", "gossipsub", "gossipsub", "floodsub", "randomsub"}[c.Intn(5)], dial: c.Chance(0.5),
				refuse: c.Chance(0.1), dupIn: c.Chance(0.2), subbed: c.Chance(0.8), grafted: c.Chance(0.5), ending: c13Endings[c.Intn(len(c13Endings))]}
			switch life.router {
			case "gossipsub":
				life.proto = protos[c.Intn(len(protos))]
			case "floodsub":
				life.proto = FloodSubID
			default:
				life.proto = []protocol.ID{RandomSubID, FloodSubID}[c.Intn(2)]
			}
			for i, n := 0, c.Range(0, 8); i < n; i++ {
				life.rpcs = append(life.rpcs, c13RPCKinds[c.Intn(len(c13RPCKinds))])
			}
			for i, n := 0, c.Range(0, 3); i < n; i++ {
				life.mid = append(life.mid, c13RPCKinds[c.Intn(len(c13RPCKinds))])
			}
			if life.ending == "respawn_window" && c.Chance(0.5) {
				life.mid = append(life.mid, "graft_burst")
			}
			if (life.ending == "respawn_window" || life.ending == "out_only_reset_then_conn" || life.ending == "out_then_in_reset" || life.ending == "out_then_in_close") && c.Chance(0.5) {
				// the victim GRAFTs over its own stream while the node has no stream to it
				life.mid = append(life.mid, "sub", "graft")
			}
		}
		c.Bubble(func() {
			r := vNewRig(c)
			defer r.Close()
			slowGate := make(chan struct{})
			defer close(slowGate)
			val := func(ctx context.Context, p peer.ID, m *Message) ValidationResult {
				switch {
				case strings.HasPrefix(string(m.Data), "slow"):
					select {
					case <-slowGate:
					case <-ctx.Done():
					case <-time.After(20 * time.Second):
					}
				case strings.HasPrefix(string(m.Data), "bad"):
					return ValidationReject
				}
				return ValidationAccept
			}
			opts := []Option{WithSeenMessagesTTL(10 * time.Second), WithDefaultValidator(val), WithMessageIdFn(func(m *pb.Message) string { return string(m.Data) })}
			var pme *partialmessages.PartialMessagesExtension[c12PeerState]
			if life.router == "gossipsub" {
				params := vFastParams()
				params.PruneBackoff, params.UnsubscribeBackoff = 5*time.Second, 2*time.Second
				params.D, params.Dlo, params.Dhi, params.Dscore, params.Dout = 3, 2, 4, 1, 0
				params.IWantFollowupTime = time.Second
				topicScore := &TopicScoreParams{TopicWeight: 1, InvalidMessageDeliveriesWeight: -1, InvalidMessageDeliveriesDecay: 0.5, TimeInMeshQuantum: time.Second,
					TimeInMeshWeight: 0.01, TimeInMeshCap: 10, FirstMessageDeliveriesWeight: 1, FirstMessageDeliveriesDecay: 0.5, FirstMessageDeliveriesCap: 100}
				pme = &partialmessages.PartialMessagesExtension[c12PeerState]{Logger: c20Discard,
					OnEmitGossip: func(string, []byte, []peer.ID, map[peer.ID]c12PeerState) {},
					OnIncomingRPC: func(from peer.ID, st map[peer.ID]c12PeerState, rpc *pb.PartialMessagesExtension) error {
						st[from] = c12PeerState{1}
						return nil
					},
					GroupTTLByHeatbeat: 3}
				gp := NewPeerGaterParams(0.33, 0.9, 0.999)
				gp.RetainStats = 10 * time.Second
				opts = append(opts, WithGossipSubParams(params), WithPeerExchange(true),
					WithPeerScore(&PeerScoreParams{AppSpecificScore: func(peer.ID) float64 { return 0 }, AppSpecificWeight: 1, DecayInterval: time.Second, DecayToZero: 0.01,
						BehaviourPenaltyWeight: -1, BehaviourPenaltyDecay: 0.5, IPColocationFactorWeight: -1, IPColocationFactorThreshold: 5,
						Topics: map[string]*TopicScoreParams{"t": topicScore}, RetainScore: 10 * time.Second},
						&PeerScoreThresholds{GossipThreshold: -1e6, PublishThreshold: -2e6, GraylistThreshold: -3e6, AcceptPXThreshold: 1e6, OpportunisticGraftThreshold: 1}),
					WithPeerGater(gp), WithTestExtension(TestExtensionConfig{}), WithPartialMessagesExtension(pme))
			}
			if err := r.Start(life.router, opts...); err != nil {
				c.Inconclusive("node: %v", err)
				return
			}
			nd, me := r.nd, r.nd.ID()
			var topicOpts []TopicOpt
			if pme != nil {
				topicOpts = append(topicOpts, RequestPartialMessages())
			}
			tp, err := nd.ps.Join("t", topicOpts...)
			if err != nil {
				panic(err)
			}
			if _, err := tp.Subscribe(); err != nil {
				panic(err)
			}
			bproto := life.proto
			// in a third of the cases the victim shares its IP address with a bystander that stays connected
			sharedIP := ""
			if c.Chance(0.33) {
				sharedIP = fmt.Sprintf("10.77.%d.%d", c.Intn(200), 1+c.Intn(200))
			}
			B1 := r.NewPuppet("by1", bproto, sharedIP)
			B2 := r.NewPuppet("by2", bproto, "")
			for _, b := range []*vPuppet{B1, B2} {
				r.Attach(b, c.Chance(0.5))
				b.Send(me, vSubRPC(true, "t"))
			}
			V := r.NewPuppet("victim", life.proto, sharedIP)
			vid := V.ID()
			if life.refuse {
				V.Refuse(true)
			}
			if life.dial {
				r.n.Connect(me, vid)
			} else {
				r.n.Connect(vid, me)
			}
			vSettle(30 * time.Millisecond)
			if _, err := V.Open(me); err != nil {
				c.Inconclusive("victim cannot open its stream: %v", err)
				return
			}
			if life.dupIn {
				V.OpenNew(me)
			}
			seq := uint64(0)
			send := func(kind string) {
				seq++
				tt := "t"
				switch kind {
				case "none":
				case "sub":
					V.Send(me, vSubRPC(true, "t", "other"))
				case "graft":
					V.Send(me, vGraftRPC("t"))
				case "prune":
					V.Send(me, vPruneRPC(uint64(c.Range(0, 3)), "t"))
				case "ihave":
					V.Send(me, &pb.RPC{Control: &pb.ControlMessage{Ihave: []*pb.ControlIHave{{TopicID: &tt, MessageIDs: []string{fmt.Sprintf("promised-%d", seq)}}}}})
				case "iwant":
					V.Send(me, &pb.RPC{Control: &pb.ControlMessage{Iwant: []*pb.ControlIWant{{MessageIDs: []string{"x", "ok-by1"}}}}})
				case "idontwant":
					V.Send(me, &pb.RPC{Control: &pb.ControlMessage{Idontwant: []*pb.ControlIDontWant{{MessageIDs: []string{fmt.Sprintf("future-%d", seq)}}}}})
				case "extensions":
					b := true
					V.Send(me, &pb.RPC{Control: &pb.ControlMessage{Extensions: &pb.ControlExtensions{PartialMessages: &b, TestExtension: &b}}})
				case "partial":
					V.Send(me, &pb.RPC{Partial: &pb.PartialMessagesExtension{TopicID: &tt, GroupID: []byte(fmt.Sprintf("g%d", seq)), PartialMessage: []byte("pm"), PartsMetadata: []byte{1}}})
				case "graft_burst":
					// the victim prunes the node, then GRAFTs forty times inside its own backoff: forty PRUNE replies for an
					// outbound queue of thirty-two (some are kept for retry when nobody serves the queue)
					V.Send(me, vPruneRPC(60, "t"))
					for i := 0; i < 40; i++ {
						V.Send(me, vGraftRPC("t"))
					}
				case "publish_ok":
					V.Send(me, vMsgRPC(vSignedMsg(V.key, "t", vSeqno(seq), []byte(fmt.Sprintf("ok-%d", seq)))))
				case "publish_rejected":
					V.Send(me, vMsgRPC(vSignedMsg(V.key, "t", vSeqno(seq), []byte(fmt.Sprintf("bad-%d", seq)))))
				case "publish_slow":
					V.Send(me, vMsgRPC(vSignedMsg(V.key, "t", vSeqno(seq), []byte(fmt.Sprintf("slow-%d", seq)))))
				case "publish_dup":
					m := vSignedMsg(B1.key, "t", vSeqno(seq), []byte(fmt.Sprintf("dupslow-%d", seq)))
					m.Data = []byte(fmt.Sprintf("slow-dup-%d", seq))
					vSign(B1.key, m)
					B1.Send(me, vMsgRPC(m))
					vSettle(5 * time.Millisecond)
					V.Send(me, vMsgRPC(m)) // a near-first duplicate while validation is running
				}
				vSettle(15 * time.Millisecond)
			}
			if life.proto == GossipSubID_v13 && c.Chance(0.6) {
				// the extensions handshake only counts on the very first RPC of a peer
				b := true
				V.Send(me, &pb.RPC{Control: &pb.ControlMessage{Extensions: &pb.ControlExtensions{PartialMessages: &b, TestExtension: &b}}})
				vSettle(10 * time.Millisecond)
			}
			B1.Send(me, vMsgRPC(vSignedMsg(B1.key, "t", vSeqno(1), []byte("ok-by1"))))
			if life.subbed {
				V.Send(me, vSubRPC(true, "t"))
				vSettle(10 * time.Millisecond)
			}
			if life.grafted {
				V.Send(me, vGraftRPC("t"))
				vSettle(10 * time.Millisecond)
			}
			for _, k := range life.rpcs {
				send(k)
			}
			if c.Chance(0.5) {
				r.ToNextGap(30 * time.Millisecond)
			}
			mid := func() {
				vSettle(30 * time.Millisecond)
				for _, k := range life.mid {
					send(k)
				}
				vSettle(30 * time.Millisecond)
			}
			switch life.ending {
			case "conn_close":
			case "out_then_in_close", "out_then_in_reset":
				V.CloseIn(me, strings.HasSuffix(life.ending, "reset")) // the node's outbound stream dies first
				mid()
				V.CloseOut(me, strings.HasSuffix(life.ending, "reset"))
			case "in_then_out_close", "in_then_out_reset":
				V.CloseOut(me, strings.HasSuffix(life.ending, "reset")) // the node's inbound stream dies first
				vSettle(30 * time.Millisecond)
				// only the node->victim direction is left; the victim can no longer send, so "mid" traffic is what the node sends by itself
				r.ToNextGap(30 * time.Millisecond)
				V.CloseIn(me, strings.HasSuffix(life.ending, "reset"))
			case "blacklist":
				nd.ps.BlacklistPeer(vid)
			case "out_only_reset_then_conn":
				V.CloseIn(me, true)
				mid()
			case "in_only_reset_then_conn":
				V.CloseOut(me, true)
				vSettle(30 * time.Millisecond)
			case "respawn_window":
				// the node's outbound stream is reset one to three times (the writer is respawned at once the first time, after
				// a growing delay afterwards); the connection goes away while a respawn is waiting, being opened, or refused
				for i, k := 0, c.Range(1, 3); i < k; i++ {
					V.CloseIn(me, true)
					if i < k-1 {
						vSettle(time.Duration(c.Range(0, 150)) * time.Millisecond)
					} else {
						vSettle(time.Duration(c.Range(0, 20)) * time.Millisecond)
					}
				}
				switch c.Intn(4) {
				case 0:
					V.Refuse(true) // the next stream is accepted and reset at once
				case 1, 2:
					V.Unhandle() // the next stream fails in protocol negotiation
				}
				for _, k := range life.mid {
					send(k)
				}
				vSettle(time.Duration(c.Range(0, 300)) * time.Millisecond)
			}
			if life.ending != "respawn_window" {
				vSettle(50 * time.Millisecond)
			}
			r.n.Disconnect(me, vid)
			V.ForgetStreams()
			// ---- every retention period: score 10s, gater 10s+decay, backoff 5s + 15-tick sweep + slack, seen 10s + 60s sweep,
			// IWANT follow-up, slow validators (20s), dead-peer backoff TTL 10min + 1min cleanup
			for i := 0; i < 13; i++ {
				vSettle(time.Minute)
			}
			res := vResidue(nd, anyOrNil(pme), vid, []string{"t", "other"})
			for _, where := range res {
				m := where
				if i := strings.Index(m, "["); i > 0 {
					m = m[:i]
				}
				c.Violatef(map[string]string{"kind": "peer_state_leak", "map": m, "proto_class": c13ProtoClass(life.proto), "ending": life.ending},
					"victim still present in %s 13 minutes after it disconnected; lifecycle: %s %s", where, life, c13GaterNote)
			}
			// the bystanders must still be there (the oracle is not trivially satisfied by forgetting everybody)
			if len(vResidue(nd, anyOrNil(pme), B1.ID(), []string{"t"})) == 0 {
				c.Inconclusive("bystander has no state either")
			}
			c.Count("lifecycles", 1)
			if enumerated {
				c.Count("enumerated", 1)
			}
			c.Sig(life.String())
			c.Nontrivial(len(life.rpcs)+len(life.mid) > 0)
			c.State(life.ending, string(life.proto), len(res))
			if c.Idx < 3 {
				c.Sample(map[string]any{"lifecycle": life.String(), "residue": res})
			}
		})
	})
}

func anyOrNil(p *partialmessages.PartialMessagesExtension[c12PeerState]) any {
	if p == nil {
		return nil
	}
	return p
}

func c13ProtoClass(p protocol.ID) string {
	switch p {
	case GossipSubID_v13:
		return "v1.3"
	case FloodSubID:
		return "floodsub"
	case RandomSubID:
		return "randomsub"
	}
	return "<=v1.2"
}
