//go:build verif

package pubsub

// C01 — complete exactly-once delivery in a connected network of correct
// nodes. 2..12 real nodes on the virtual network, random connected topology,
// router mix, role mix, optional churn prefix; after settling, every publish
// must reach every subscription of every subscriber exactly once.

import (
	"context"
	"fmt"
	"sort"
	"strings"
	"sync"
	"testing"
	"time"

	"github.com/libp2p/go-libp2p/core/peer"
)

type c01Node struct {
	c      *vCase
	nd     *vNode
	router string
	subs   []*c01Sub
	topic  *Topic
	relay  RelayCancelFunc
	// target role
	wantSubs  int
	wantRelay bool
}

type c01Sub struct {
	filter func(payload string) bool // the subscription's own message filter (nil: takes everything)
	sub    *Subscription
	cancel context.CancelFunc
	mu     sync.Mutex
	got    []string
	done   chan struct{}
}

func (s *c01Sub) run(ctx context.Context) {
	defer close(s.done)
	for {
		m, err := s.sub.Next(ctx)
		if err != nil {
			return
		}
		s.mu.Lock()
		s.got = append(s.got, string(m.Data))
		s.mu.Unlock()
	}
}

func (s *c01Sub) snapshot() []string {
	s.mu.Lock()
	defer s.mu.Unlock()
	return append([]string(nil), s.got...)
}

type c01Net struct {
	c     *vCase
	n     *vNet
	nodes []*c01Node
	edges map[[2]int]bool
	hb    time.Duration
	par   GossipSubParams
}

func c01Params(c *vCase) GossipSubParams {
	p := vFastParams()
	p.D = c.Range(2, 4)
	p.Dlo = p.D - 1
	p.Dhi = p.D + c.Range(1, 2)
	p.Dscore = 1
	p.Dout = 0
	p.Dlazy = c.Range(2, 4)
	p.HistoryLength, p.HistoryGossip = 6, 3
	// with a long backoff a node pruned by an over-subscribed neighbour stays outside every mesh for many heartbeats
	// (its mesh may be empty) and is served by gossip alone during the judged window
	p.PruneBackoff = []time.Duration{3 * time.Second, 3 * time.Second, 15 * time.Second, 25 * time.Second}[c.Intn(4)]
	p.UnsubscribeBackoff = time.Second
	p.FanoutTTL = 10 * time.Second
	return p
}

func (cn *c01Net) addNode(i int, router string) *c01Node {
	opts := []Option{WithDefaultValidator(func(ctx context.Context, p peer.ID, m *Message) bool {
		return !strings.HasPrefix(string(m.Data), "REJECT")
	})}
	if router == "gossipsub" {
		opts = append(opts, WithGossipSubParams(cn.par))
	}
	if cn.c.Chance(0.3) {
		// a subscription filter that allows the two topics in play and limits an RPC to two subscriptions: the largest
		// hello a neighbour can send
		opts = append(opts, WithSubscriptionFilter(WrapLimitSubscriptionFilter(NewAllowlistSubscriptionFilter("t", "aux"), 2)))
	}
	nd, err := cn.n.NewNode(fmt.Sprintf("n%d", i), router, opts...)
	if err != nil {
		panic(err)
	}
	x := &c01Node{nd: nd, router: router, c: cn.c}
	cn.nodes = append(cn.nodes, x)
	return x
}

func (x *c01Node) handle() *Topic {
	if x.topic == nil {
		t, err := x.nd.ps.Join("t")
		if err != nil {
			panic(err)
		}
		x.topic = t
	}
	return x.topic
}

func (x *c01Node) subscribe() {
	// subscription options: a buffer of its own size, a message filter of its own (it concerns this subscription only:
	// the node's other subscriptions and everybody downstream still get the message)
	var so []SubOpt
	var filter func(string) bool
	if x.c.Chance(0.3) {
		so = append(so, WithBufferSize(x.c.Range(32, 300)))
	}
	if x.c.Chance(0.25) {
		odd := x.c.Chance(0.5)
		filter = func(payload string) bool {
			var m int
			if _, err := fmt.Sscanf(payload, "msg-%d-", &m); err != nil {
				return true
			}
			return (m%2 == 1) == odd
		}
		so = append(so, WithMessageFilter(func(m *Message) bool { return filter(string(m.Data)) }))
		x.c.Count("subscriptions_with_message_filter", 1)
	}
	s, err := x.handle().Subscribe(so...)
	if err != nil {
		panic(err)
	}
	ctx, cancel := context.WithCancel(context.Background())
	cs := &c01Sub{sub: s, filter: filter, cancel: cancel, done: make(chan struct{})}
	x.subs = append(x.subs, cs)
	go cs.run(ctx)
}

func (x *c01Node) unsubscribe() {
	if len(x.subs) == 0 {
		return
	}
	s := x.subs[len(x.subs)-1]
	x.subs = x.subs[:len(x.subs)-1]
	s.sub.Cancel()
	s.cancel()
	<-s.done
}

func (x *c01Node) setRelay(on bool) {
	if on && x.relay == nil {
		r, err := x.handle().Relay()
		if err != nil {
			panic(err)
		}
		x.relay = r
	} else if !on && x.relay != nil {
		x.relay()
		x.relay = nil
	}
}

func (x *c01Node) interested() bool { return len(x.subs) > 0 || x.relay != nil }

func (cn *c01Net) setEdge(i, j int, on bool) {
	if i > j {
		i, j = j, i
	}
	k := [2]int{i, j}
	if on == cn.edges[k] {
		return
	}
	a, b := cn.nodes[i].nd.ID(), cn.nodes[j].nd.ID()
	if on {
		if cn.c.Chance(0.5) {
			a, b = b, a
		}
		if err := cn.n.Connect(a, b); err != nil {
			panic(err)
		}
		cn.edges[k] = true
	} else {
		cn.n.Disconnect(a, b)
		delete(cn.edges, k)
	}
}

// connectedOverlay: do the interested nodes induce a connected subgraph, and has every other node an interested neighbour?
func c01Valid(n int, edges map[[2]int]bool, interested []bool) bool {
	var first = -1
	cnt := 0
	for i, b := range interested {
		if b {
			cnt++
			if first < 0 {
				first = i
			}
		}
	}
	if cnt == 0 {
		return false
	}
	seen := map[int]bool{first: true}
	q := []int{first}
	for len(q) > 0 {
		u := q[0]
		q = q[1:]
		for v := 0; v < n; v++ {
			a, b := u, v
			if a > b {
				a, b = b, a
			}
			if u != v && edges[[2]int{a, b}] && interested[v] && !seen[v] {
				seen[v] = true
				q = append(q, v)
			}
		}
	}
	if len(seen) != cnt {
		return false
	}
	for i := 0; i < n; i++ {
		if interested[i] {
			continue
		}
		ok := false
		for v := 0; v < n; v++ {
			a, b := i, v
			if a > b {
				a, b = b, a
			}
			if edges[[2]int{a, b}] && interested[v] {
				ok = true
			}
		}
		if !ok {
			return false
		}
	}
	return true
}

func TestVerifC01Deliver(t *testing.T) {
	vRun(t, "C01.deliver", vCount(400, 25000), func(c *vCase) {
		c.Bubble(func() {
			cn := &c01Net{c: c, n: newVNet(c), edges: map[[2]int]bool{}, hb: time.Second}
			t0 := time.Now()
			defer func() {
				for _, x := range cn.nodes {
					for len(x.subs) > 0 {
						s := x.subs[0]
						x.subs = x.subs[1:]
						s.cancel()
					}
					x.nd.cancel()
				}
				cn.n.Close()
				vSettle(0)
			}()
			cn.par = c01Params(c)
			N := c.Range(2, 12)
			mix := []string{"gossipsub", "floodsub", "randomsub", "mixed", "gossipsub", "mixed"}[c.Intn(6)]
			// 15 %: a gossipsub star whose hub has between Dhi and Dlo+Dlazy topic peers: the hub keeps cutting its mesh back
			// to D, and the leaves it pruned (their only neighbour is the hub, their mesh is empty while the backoff lasts)
			// are served by IHAVE / IWANT alone
			starMax := min(cn.par.Dlo+cn.par.Dlazy, RandomSubD)
			star := c.Chance(0.15) && cn.par.Dhi <= starMax
			if star {
				N = c.Range(cn.par.Dhi, starMax) + 1
				mix = "gossipsub"
			}
			for i := 0; i < N; i++ {
				r := mix
				if mix == "mixed" {
					r = []string{"gossipsub", "gossipsub", "floodsub", "randomsub"}[c.Intn(4)]
				}
				cn.addNode(i, r)
			}
			// ---- target configuration: random connected graph (spanning tree + extra edges with bounded degree) and roles
			var target map[[2]int]bool
			interested := make([]bool, N)
			maxDeg := cn.par.Dlo + cn.par.Dlazy
			if maxDeg > RandomSubD {
				maxDeg = RandomSubD
			}
			for try := 0; ; try++ {
				if try > 200 {
					c.Inconclusive("no valid configuration found")
					return
				}
				target = map[[2]int]bool{}
				deg := make([]int, N)
				perm := c.R.Perm(N)
				if star {
					for k := 1; k < N; k++ {
						target[[2]int{0, k}] = true
					}
					perm = nil
				}
				for k := 1; k < len(perm); k++ {
					// attach to an earlier node with spare degree
					var cand []int
					for _, u := range perm[:k] {
						if deg[u] < maxDeg {
							cand = append(cand, u)
						}
					}
					if len(cand) == 0 {
						break
					}
					u := cand[c.Intn(len(cand))]
					a, b := u, perm[k]
					if a > b {
						a, b = b, a
					}
					target[[2]int{a, b}] = true
					deg[u]++
					deg[perm[k]]++
				}
				for e, extra := 0, c.Range(0, N); e < extra && !star; e++ {
					a, b := c.Intn(N), c.Intn(N)
					if a == b {
						continue
					}
					if a > b {
						a, b = b, a
					}
					if !target[[2]int{a, b}] && deg[a] < maxDeg && deg[b] < maxDeg {
						target[[2]int{a, b}] = true
						deg[a]++
						deg[b]++
					}
				}
				for i, x := range cn.nodes {
					x.wantSubs, x.wantRelay = 0, false
					switch c.Intn(8) {
					case 0:
						x.wantSubs = 2
					case 1:
						x.wantRelay = true
					case 2:
						// non-subscribed (publisher only)
					case 3:
						x.wantSubs, x.wantRelay = 1, true
					default:
						x.wantSubs = 1
					}
					if star && x.wantSubs == 0 && !x.wantRelay {
						x.wantSubs = 1
					}
					interested[i] = x.wantSubs > 0 || x.wantRelay
				}
				nSubs := 0
				for _, x := range cn.nodes {
					nSubs += x.wantSubs
				}
				if nSubs > 0 && c01Valid(N, target, interested) {
					break
				}
			}
			// ---- churn prefix: start from a perturbed configuration and walk to the target in random order
			churn := c.Chance(0.5)
			var hist []string
			if churn {
				for k := 0; k < c.Range(1, N+2); k++ {
					switch c.Intn(4) {
					case 0:
						a, b := c.Intn(N), c.Intn(N)
						if a != b {
							cn.setEdge(a, b, true)
							hist = append(hist, fmt.Sprintf("connect(%d,%d)", a, b))
						}
					case 1:
						x := cn.nodes[c.Intn(N)]
						x.subscribe()
						hist = append(hist, "subscribe("+x.nd.name+")")
					case 2:
						x := cn.nodes[c.Intn(N)]
						x.setRelay(true)
						hist = append(hist, "relay("+x.nd.name+")")
					case 3:
						x := cn.nodes[c.Intn(N)]
						x.handle().Publish(context.Background(), []byte("early-"+x.nd.name))
						hist = append(hist, "publish("+x.nd.name+")")
					}
					vSettle(time.Duration(c.Range(0, 1500)) * time.Millisecond)
				}
			}
			type step func()
			var steps []step
			for i := 0; i < N; i++ {
				for j := i + 1; j < N; j++ {
					i, j := i, j
					want := target[[2]int{i, j}]
					if want != cn.edges[[2]int{i, j}] {
						steps = append(steps, func() {
							cn.setEdge(i, j, want)
							hist = append(hist, fmt.Sprintf("edge(%d,%d)=%v", i, j, want))
						})
					}
				}
			}
			// some nodes also relay or subscribe an unrelated topic, before or after taking their role in the judged one
			for _, x := range cn.nodes {
				x := x
				if c.Chance(0.25) {
					kind := c.Intn(2)
					steps = append(steps, func() {
						aux, err := x.nd.ps.Join("aux")
						if err != nil {
							return
						}
						if kind == 0 {
							aux.Relay()
							hist = append(hist, "aux_relay("+x.nd.name+")")
						} else if s, err := aux.Subscribe(); err == nil {
							go func() {
								for {
									if _, err := s.Next(x.nd.ctx); err != nil {
										return
									}
								}
							}()
							hist = append(hist, "aux_subscribe("+x.nd.name+")")
						}
					})
				}
			}
			for _, x := range cn.nodes {
				x := x
				steps = append(steps, func() {
					for len(x.subs) < x.wantSubs {
						x.subscribe()
					}
					for len(x.subs) > x.wantSubs {
						x.unsubscribe()
					}
					x.setRelay(x.wantRelay)
					hist = append(hist, fmt.Sprintf("role(%s subs=%d relay=%v)", x.nd.name, x.wantSubs, x.wantRelay))
				})
			}
			c.R.Shuffle(len(steps), func(i, j int) { steps[i], steps[j] = steps[j], steps[i] })
			for _, s := range steps {
				s()
				if churn {
					vSettle(time.Duration(c.Range(0, 800)) * time.Millisecond)
				}
			}
			// ---- settle: backoffs expire and are swept (every 15 ticks), meshes repair, announcements propagate
			vSettle(cn.par.PruneBackoff + 2*time.Second + 16*cn.hb + 3*cn.hb)
			if star {
				// expired backoff entries are swept every 15th heartbeat; the pruned leaves graft again right after it and the
				// hub cuts back one heartbeat later: the judged window is placed in the quiet stretch that follows
				for k := 0; k < 20; k++ {
					if t := cn.nodes[0].nd.Snap().Ticks % 15; t >= 3 && t <= 4 {
						break
					}
					vSettle(cn.hb)
				}
			}
			// early messages must not be confused with the judged ones
			base := map[*c01Sub]int{}
			for _, x := range cn.nodes {
				for _, s := range x.subs {
					base[s] = len(s.snapshot())
				}
			}
			// ---- convergence (C05's business): every node sees exactly its interested neighbours
			notConverged := ""
			for i, x := range cn.nodes {
				want := map[peer.ID]bool{}
				for j, y := range cn.nodes {
					a, b := i, j
					if a > b {
						a, b = b, a
					}
					if i != j && target[[2]int{a, b}] && interested[j] {
						want[y.nd.ID()] = true
					}
				}
				got := x.nd.ps.ListPeers("t")
				ok := len(got) == len(want)
				for _, p := range got {
					ok = ok && want[p]
				}
				if !ok && notConverged == "" {
					// Not a reason to stop: on correct code the announcements always converge within this bound (0 of 6000
					// thorough cases did not). The case goes on and is judged on deliveries alone; a loss is then reported
					// together with this observation.
					notConverged = fmt.Sprintf("announcements had not converged at %s after the settling period: ListPeers=%s, %d interested neighbours", x.nd.name, cn.n.Names(got), len(want))
					c.Count("views_not_converged", 1)
				}
			}
			// ---- degree precondition for gossipsub (deterministic regime): every non-mesh eligible neighbour can be gossiped to
			for _, x := range cn.nodes {
				if x.nd.gs == nil {
					continue
				}
				s := x.nd.Snap()
				set := s.Mesh["t"]
				if set == nil {
					set = s.Fanout["t"]
				}
				nonMesh := 0
				for p := range s.Topics["t"] {
					if _, in := set[p]; !in && GossipSubDefaultFeatures(GossipSubFeatureMesh, s.Peers[p]) {
						nonMesh++
					}
				}
				if nonMesh > cn.par.Dlazy {
					c.Inconclusive("%s has %d non-mesh gossip candidates > Dlazy=%d (outside the deterministic regime)", x.nd.name, nonMesh, cn.par.Dlazy)
					return
				}
				if x.interested() && len(s.Mesh["t"]) == 0 && len(s.Topics["t"]) > 0 {
					c.Count("empty_mesh_nodes", 1)
					allGS := true
					for p := range s.Topics["t"] {
						if !GossipSubDefaultFeatures(GossipSubFeatureMesh, s.Peers[p]) {
							allGS = false
						}
					}
					if allGS {
						c.Count("nodes_served_by_gossip_alone", 1)
					}
				}
			}
			// ---- "the meshes have settled": no GRAFT / PRUNE anywhere during the last 5 heartbeats
			meshEvents := func(since time.Time) int {
				n := 0
				for _, x := range cn.nodes {
					for _, e := range x.nd.tr.Events() {
						if (e.Kind == "graft" || e.Kind == "prune") && e.T.After(since) {
							n++
						}
					}
				}
				return n
			}
			if n := meshEvents(time.Now().Add(-5 * cn.hb)); n > 0 {
				c.Inconclusive("meshes never settle: %d GRAFT/PRUNE events in the last 5 heartbeats (a node's topic degree reaches Dhi)", n)
				return
			}
			pubStart := time.Now()
			// ---- publishes
			M := c.Range(3, 12)
			type pub struct {
				payload string
				by      int
				ok      bool
			}
			var pubs []pub
			for m := 0; m < M; m++ {
				by := c.Intn(N)
				payload := fmt.Sprintf("msg-%d-by-%s", m, cn.nodes[by].nd.name)
				if c.Chance(0.08) {
					payload = "REJECT-" + payload
				}
				err := cn.nodes[by].handle().Publish(context.Background(), []byte(payload))
				pubs = append(pubs, pub{payload, by, err == nil})
				if strings.HasPrefix(payload, "REJECT") && err == nil {
					c.Violatef(map[string]string{"kind": "rejected_publish_no_error"}, "Publish of a message the validator rejects returned nil")
				}
				if c.Chance(0.6) && !star {
					vSettle(time.Duration(N+3) * cn.hb)
				} else {
					vSettle(time.Duration(c.Range(1, 300)) * time.Millisecond)
				}
			}
			if star {
				vSettle(4 * cn.hb) // one gossip round trip and slack; the next sweep is at least five heartbeats away
			} else {
				vSettle(time.Duration(N+4) * cn.hb)
			}
			if n := meshEvents(pubStart); n > 0 {
				c.Inconclusive("meshes changed while messages were in flight (%d GRAFT/PRUNE events)", n)
				return
			}
			// ---- oracle
			published := map[string]bool{}
			for _, p := range pubs {
				if p.ok {
					published[p.payload] = true
				}
			}
			desc := func() string {
				var rs []string
				for i, x := range cn.nodes {
					rs = append(rs, fmt.Sprintf("%s:%s subs=%d relay=%v", x.nd.name, x.router, x.wantSubs, x.wantRelay))
					_ = i
				}
				var es []string
				for e := range target {
					es = append(es, fmt.Sprintf("%d-%d", e[0], e[1]))
				}
				sort.Strings(es)
				// diagnostics: what each node believes now, and every outbound-stream event it saw
				var views []string
				for _, x := range cn.nodes {
					var ev []string
					for _, e := range x.nd.tr.Events() {
						if e.Kind == "newout" || e.Kind == "closedout" {
							ev = append(ev, fmt.Sprintf("%s(%s)@+%v", e.Kind, cn.n.Name(e.Peer), e.T.Sub(t0).Round(time.Millisecond)))
						}
					}
					sn := x.nd.Snap()
					views = append(views, fmt.Sprintf("%s: topicPeers=%s mesh=%v streams=%v", x.nd.name, cn.n.Names(x.nd.ps.ListPeers("t")), vPeerNames(cn.n, sn.Mesh["t"]), ev))
				}
				return fmt.Sprintf("D=%d Dlo=%d Dhi=%d Dlazy=%d nodes=[%s] edges=%v history=%v\n views now: %s", cn.par.D, cn.par.Dlo, cn.par.Dhi, cn.par.Dlazy, strings.Join(rs, "; "), es, hist, strings.Join(views, "\n   "))
			}
			deliveries := 0
			for _, x := range cn.nodes {
				for si, s := range x.subs {
					cnt := map[string]int{}
					for _, p := range s.snapshot()[base[s]:] {
						cnt[p]++
					}
					for _, p := range pubs {
						n := cnt[p.payload]
						switch {
						case s.filter != nil && !s.filter(p.payload):
							if n > 0 {
								c.Violatef(map[string]string{"kind": "filtered_message_delivered", "router": x.router}, "%s subscription %d received %q, which its own message filter refuses; %s", x.nd.name, si, p.payload, desc())
							}
						case p.ok && !strings.HasPrefix(p.payload, "REJECT") && n == 0:
							cause := map[string]string{"kind": "message_not_delivered", "router": x.router, "publisher_router": cn.nodes[p.by].router}
							if notConverged != "" {
								cause["with"] = "interest_not_converged"
							}
							c.Violatef(cause, "%s subscription %d never received %q (published by %s); %s %s", x.nd.name, si, p.payload, cn.nodes[p.by].nd.name, notConverged, desc())
						case n > 1:
							c.Violatef(map[string]string{"kind": "message_delivered_twice", "router": x.router}, "%s subscription %d received %q %d times; %s", x.nd.name, si, p.payload, n, desc())
						case strings.HasPrefix(p.payload, "REJECT") && n > 0:
							c.Violatef(map[string]string{"kind": "rejected_message_delivered", "router": x.router}, "%s subscription %d received %q; %s", x.nd.name, si, p.payload, desc())
						}
						deliveries += n
					}
					for p := range cnt {
						if !published[p] && !strings.HasPrefix(p, "early-") {
							c.Violatef(map[string]string{"kind": "unpublished_message_delivered"}, "%s received %q which nobody published successfully", x.nd.name, p)
						}
					}
				}
			}
			// how many deliveries travelled over gossip (IWANT answered)?
			iwant := 0
			for _, x := range cn.nodes {
				for _, e := range x.nd.tr.Events() {
					if e.Kind == "recv" && e.RPC != nil && len(e.RPC.GetControl().GetIwant()) > 0 {
						iwant++
					}
				}
			}
			c.Count("publishes", M)
			c.Count("deliveries", deliveries)
			c.Count("iwant_rpcs_received", iwant)
			routers := map[string]int{}
			roles := map[string]int{}
			for _, x := range cn.nodes {
				routers[x.router]++
				roles[fmt.Sprintf("s%dr%v", x.wantSubs, x.wantRelay)]++
			}
			multiHop := len(target) >= 2 && N >= 3
			c.Sig(N, len(target), fmt.Sprint(routers), fmt.Sprint(roles), churn)
			c.Nontrivial(N >= 3 && multiHop)
			c.State(N, len(target), iwant > 0)
			if c.Idx < 3 {
				c.Sample(map[string]any{"nodes": N, "configuration": desc(), "publishes": M, "deliveries": deliveries, "iwant_rpcs": iwant})
			}
		})
	})
}
