//go:build verif

package pubsub

import (
	"context"
	"testing"
	"time"
)

func TestVerifSmoke(t *testing.T) {
	vRun(t, "SMOKE", vCount(5, 20), func(c *vCase) {
		c.Bubble(func() {
			n := newVNet(c)
			defer n.Close()
			ctx, cancel := context.WithCancel(context.Background())
			defer cancel()
			h := n.NewHost("node", "")
			ps, err := NewGossipSub(ctx, h)
			if err != nil {
				panic(err)
			}
			sub, err := ps.Subscribe("t")
			if err != nil {
				panic(err)
			}
			var pups []*vPuppet
			for i := 0; i < 4; i++ {
				p := n.NewPuppet("p"+string(rune('0'+i)), "", vAllGossipProtos[i%4])
				pups = append(pups, p)
				if i%2 == 0 {
					n.Connect(p.ID(), h.ID())
				} else {
					n.Connect(h.ID(), p.ID())
				}
			}
			vSettle(100 * time.Millisecond)
			for _, p := range pups {
				if err := p.Send(h.ID(), vSubRPC(true, "t")); err != nil {
					c.Inconclusive("send: %v", err)
				}
			}
			vSettle(2 * time.Second)
			c.Logf("peers in t: %d", len(ps.ListPeers("t")))
			if err := ps.Publish("t", []byte("hello")); err != nil {
				panic(err)
			}
			vSettle(100 * time.Millisecond)
			got := 0
			for _, p := range pups {
				for _, w := range p.Wire() {
					got += len(w.RPC.Publish)
				}
			}
			m, err := sub.Next(ctx)
			if err != nil || string(m.Data) != "hello" {
				c.Violatef(map[string]string{"kind": "smoke"}, "self delivery failed")
			}
			if got != 4 || len(ps.ListPeers("t")) != 4 {
				c.Violatef(map[string]string{"kind": "smoke"}, "got %d copies, peers %d", got, len(ps.ListPeers("t")))
			}
			c.Count("copies", got)
			cancel()
			vSettle(time.Second)
		})
	})
}
