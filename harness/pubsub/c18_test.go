//go:build verif

package pubsub

// C18 — the peer-event stream of a topic reproduces the topic's peer set.
// (a) exhaustive short sequences over two puppets and the handler operations,
// (b) PRNG long histories with several puppets, handlers and concurrent
// consumers, (c) real-time -race stress of notification vs consumption.

import (
	"context"
	"fmt"
	"runtime"
	"sort"
	"strings"
	"sync"
	"sync/atomic"
	"testing"
	"testing/synctest"
	"time"

	"github.com/libp2p/go-libp2p/core/peer"
)

const (
	c18Sub1 = iota
	c18Unsub1
	c18Disc1
	c18Sub2
	c18Unsub2
	c18Disc2
	c18NewHandler
	c18Next
	c18NextCancelled
	c18CancelHandler
	c18NOps
)

var c18OpNames = []string{"sub(p1)", "unsub(p1)", "disconnect(p1)", "sub(p2)", "unsub(p2)", "disconnect(p2)", "newHandler", "next", "next(cancelled ctx)", "cancelHandler"}

type c18Handler struct {
	h         *TopicEventHandler
	events    []PeerEvent
	cancelled bool
	multi     bool // consumed by several background goroutines: only set-level checks
	unordered bool // some events were taken by concurrent one-shot consumers: no order between those
	mu        sync.Mutex
}

type c18Rig struct {
	c    *vCase
	r    *vRig
	tp   *Topic
	pups []*vPuppet
	att  []bool
	hs   []*c18Handler
	desc func() string
}

func c18New(c *vCase, nP int) *c18Rig {
	r := vNewRig(c)
	if err := r.Start([]string{"floodsub", "gossipsub", "randomsub"}[c.Intn(3)]); err != nil {
		panic(err)
	}
	tp, err := r.nd.ps.Join("t")
	if err != nil {
		panic(err)
	}
	x := &c18Rig{c: c, r: r, tp: tp}
	for i := 0; i < nP; i++ {
		x.pups = append(x.pups, r.NewPuppet(fmt.Sprintf("p%d", i+1), FloodSubID, ""))
		x.att = append(x.att, false)
	}
	return x
}

func (x *c18Rig) attach(i int) {
	if !x.att[i] {
		if err := x.r.Attach(x.pups[i], x.c.Chance(0.5)); err == nil {
			x.att[i] = true
		}
	}
}

func (x *c18Rig) sub(i int, on bool) {
	x.attach(i)
	rpc := vSubRPC(on, "t")
	if on && x.c.Chance(0.4) {
		// the announcement carries partial-message options (a repeated announcement may change them: the peer set does not change)
		a, b := x.c.Chance(0.5), x.c.Chance(0.5)
		rpc.Subscriptions[0].RequestsPartial, rpc.Subscriptions[0].SupportsSendingPartial = &a, &b
	}
	x.pups[i].Send(x.r.nd.ID(), rpc)
	vSettle(5 * time.Millisecond)
}

func (x *c18Rig) disc(i int) {
	if x.att[i] {
		x.r.n.Disconnect(x.r.nd.ID(), x.pups[i].ID())
		x.pups[i].ForgetStreams()
		x.att[i] = false
		vSettle(20 * time.Millisecond)
	}
}

func (x *c18Rig) newHandler() *c18Handler {
	h, err := x.tp.EventHandler()
	if err != nil {
		panic(err)
	}
	ch := &c18Handler{h: h}
	x.hs = append(x.hs, ch)
	return ch
}

// next tries to take one event; returns false if the call blocked (it is then released by cancelling its context).
func (x *c18Rig) next(ch *c18Handler, preCancelled bool) (PeerEvent, bool) {
	ctx, cancel := context.WithCancel(context.Background())
	defer cancel()
	if preCancelled {
		cancel()
	}
	type res struct {
		e   PeerEvent
		err error
	}
	done := make(chan res, 1)
	go func() { e, err := ch.h.NextPeerEvent(ctx); done <- res{e, err} }()
	synctest.Wait()
	select {
	case r := <-done:
		if r.err != nil {
			return PeerEvent{}, false
		}
		ch.events = append(ch.events, r.e)
		return r.e, true
	default:
		cancel()
		r := <-done
		if r.err == nil {
			ch.events = append(ch.events, r.e)
			return r.e, true
		}
		return PeerEvent{}, false
	}
}

func (x *c18Rig) pending(ch *c18Handler) int {
	ch.h.evtLogMx.Lock()
	defer ch.h.evtLogMx.Unlock()
	return len(ch.h.evtLog)
}

// finish drains every live handler and applies the oracle.
func (x *c18Rig) finish(fail func(cause map[string]string, format string, args ...any)) {
	vSettle(50 * time.Millisecond)
	// ground truth: the topic's membership table, read inside the event loop (Topic.ListPeers shows only those members the
	// node currently has an outbound queue for: a member whose own stream is up while the node's stream to it is down is
	// a member all the same, and no leave has been notified for it)
	members := map[peer.ID]bool{}
	for p := range x.r.nd.Snap().Topics["t"] {
		members[p] = true
	}
	for hi, ch := range x.hs {
		if !ch.cancelled {
			for {
				_, ok := x.next(ch, false)
				if !ok {
					break
				}
			}
			if n := x.pending(ch); n > 0 {
				fail(map[string]string{"kind": "lost_signal"}, "handler %d: NextPeerEvent blocks although %d events are pending", hi, n)
			}
		}
		// replay
		set := map[peer.ID]bool{}
		for k, e := range ch.events {
			switch e.Type {
			case PeerJoin:
				if set[e.Peer] && !ch.multi && !ch.unordered {
					fail(map[string]string{"kind": "duplicate_join"}, "handler %d: event %d is a second Join for %s without a Leave in between; events=%s", hi, k, x.r.Name(e.Peer), x.evs(ch))
				}
				set[e.Peer] = true
			case PeerLeave:
				if !set[e.Peer] && !ch.multi && !ch.unordered {
					fail(map[string]string{"kind": "leave_without_join"}, "handler %d: event %d is a Leave for %s which is not joined; events=%s", hi, k, x.r.Name(e.Peer), x.evs(ch))
				}
				delete(set, e.Peer)
			}
		}
		if ch.multi || ch.unordered {
			// concurrent consumers: judge the multiset (joins - leaves per peer)
			bal := map[peer.ID]int{}
			for _, e := range ch.events {
				if e.Type == PeerJoin {
					bal[e.Peer]++
				} else {
					bal[e.Peer]--
				}
			}
			set = map[peer.ID]bool{}
			for p, b := range bal {
				if b < 0 || b > 1 {
					fail(map[string]string{"kind": "unbalanced_events"}, "handler %d: %d more joins than leaves for %s", hi, b, x.r.Name(p))
				}
				if b == 1 {
					set[p] = true
				}
			}
		}
		if ch.cancelled {
			continue
		}
		for p := range members {
			if !set[p] {
				fail(map[string]string{"kind": "member_missing_from_events"}, "handler %d: %s is in the topic but the replayed events do not contain it; events=%s members=%s", hi, x.r.Name(p), x.evs(ch), x.r.n.Names(x.tp.ListPeers()))
			}
		}
		for p := range set {
			if !members[p] {
				fail(map[string]string{"kind": "ghost_member_in_events"}, "handler %d: the replayed events contain %s which is not in the topic; events=%s members=%s", hi, x.r.Name(p), x.evs(ch), x.r.n.Names(x.tp.ListPeers()))
			}
		}
	}
}

func (x *c18Rig) evs(ch *c18Handler) string {
	var parts []string
	for _, e := range ch.events {
		t := "J"
		if e.Type == PeerLeave {
			t = "L"
		}
		parts = append(parts, t+":"+x.r.Name(e.Peer))
	}
	return "[" + strings.Join(parts, " ") + "]"
}

func c18RunSeq(c *vCase, seq []int) {
	x := c18New(c, 2)
	defer x.r.Close()
	names := make([]string, len(seq))
	for i, o := range seq {
		names[i] = c18OpNames[o]
	}
	fail := func(cause map[string]string, format string, args ...any) {
		c.Violatef(cause, "sequence %v: %s", names, fmt.Sprintf(format, args...))
	}
	last := func() *c18Handler {
		for i := len(x.hs) - 1; i >= 0; i-- {
			if !x.hs[i].cancelled {
				return x.hs[i]
			}
		}
		return nil
	}
	for _, op := range seq {
		switch op {
		case c18Sub1, c18Sub2:
			x.sub(op/3, true)
		case c18Unsub1, c18Unsub2:
			x.sub(op/3, false)
		case c18Disc1, c18Disc2:
			x.disc(op / 3)
		case c18NewHandler:
			x.newHandler()
		case c18Next, c18NextCancelled:
			if h := last(); h != nil {
				x.next(h, op == c18NextCancelled)
			}
		case c18CancelHandler:
			if h := last(); h != nil {
				h.h.Cancel()
				h.cancelled = true
			}
		}
	}
	x.finish(fail)
}

func TestVerifC18Small(t *testing.T) {
	vRun(t, "C18.small", func(string) int { return c18NOps * c18NOps }, func(c *vCase) {
		rest := 2
		if c.Tier == "thorough" {
			rest = 3
		}
		seq := make([]int, 2+rest)
		seq[0], seq[1] = c.Idx/c18NOps, c.Idx%c18NOps
		n := 0
		c.Bubble(func() {
			var rec func(i int)
			rec = func(i int) {
				if c.Violated() {
					return
				}
				if i == len(seq) {
					c18RunSeq(c, seq)
					n++
					return
				}
				for o := 0; o < c18NOps; o++ {
					seq[i] = o
					rec(i + 1)
				}
			}
			rec(2)
		})
		c.Count("sequences", n)
		c.Sig(seq[0], seq[1])
		c.Nontrivial(true)
		if c.Idx == 6 {
			c.Sample(map[string]any{"prefix": []string{c18OpNames[seq[0]], c18OpNames[seq[1]]}, "suffix_len": rest, "sequences": n})
		}
	})
}

func TestVerifC18Rand(t *testing.T) {
	vRun(t, "C18.rand", vCount(300, 25000), func(c *vCase) {
		c.Bubble(func() {
			nP := c.Range(2, 6)
			x := c18New(c, nP)
			defer x.r.Close()
			var hist []string
			fail := func(cause map[string]string, format string, args ...any) {
				h := hist
				if len(h) > 80 {
					h = h[len(h)-80:]
				}
				c.Violatef(cause, "%s\n history=%v", fmt.Sprintf(format, args...), h)
			}
			nOps := c.Range(10, 80)
			// background consumers for "multi" handlers
			var wg sync.WaitGroup
			bgCtx, bgCancel := context.WithCancel(context.Background())
			for op := 0; op < nOps && !c.Violated(); op++ {
				i := c.Intn(nP)
				opk := c.Intn(15)
				switch opk {
				case 14:
					// the node's stream to a member goes down and cannot be re-opened while the member's own stream (and with it
					// its membership) stays: a handler created now still has to start from the full peer set
					if x.att[i] {
						x.pups[i].Unhandle()
						x.pups[i].CloseIn(x.r.nd.ID(), true)
						vSettle(time.Duration(c.Range(0, 400)) * time.Millisecond)
						hist = append(hist, fmt.Sprintf("outbound_down(p%d)", i+1))
						if len(x.hs) < 3 && c.Chance(0.7) {
							x.newHandler()
							vSettle(5 * time.Millisecond)
							hist = append(hist, fmt.Sprintf("newHandler#%d", len(x.hs)-1))
						}
						if c.Chance(0.5) {
							x.pups[i].Rehandle()
						}
					}
				case 13:
					// a handler created while subscription changes of several peers are on their way to the event loop
					if len(x.hs) < 3 {
						k := 0
						for j := 0; j < nP; j++ {
							if x.att[j] && c.Chance(0.7) {
								x.pups[j].Send(x.r.nd.ID(), vSubRPC(c.Chance(0.4), "t"))
								k++
							}
						}
						for y := 0; y < c.Intn(4); y++ {
							runtime.Gosched()
						}
						x.newHandler()
						vSettle(5 * time.Millisecond)
						hist = append(hist, fmt.Sprintf("newHandler#%d(racing %d announcements)", len(x.hs)-1, k))
					}
				case 0, 1, 2:
					x.sub(i, true)
					hist = append(hist, fmt.Sprintf("sub(p%d)", i+1))
				case 3, 4:
					x.sub(i, false)
					hist = append(hist, fmt.Sprintf("unsub(p%d)", i+1))
				case 5:
					x.disc(i)
					hist = append(hist, fmt.Sprintf("disconnect(p%d)", i+1))
				case 6:
					if len(x.hs) < 3 {
						ch := x.newHandler()
						hist = append(hist, fmt.Sprintf("newHandler#%d", len(x.hs)-1))
						if c.Chance(0.4) {
							ch.multi = true
							for g, k := 0, c.Range(2, 4); g < k; g++ {
								wg.Add(1)
								go func() {
									defer wg.Done()
									for {
										e, err := ch.h.NextPeerEvent(bgCtx)
										if err != nil {
											return
										}
										ch.mu.Lock()
										ch.events = append(ch.events, e)
										ch.mu.Unlock()
									}
								}()
							}
						}
					}
				case 7, 8, 9:
					if len(x.hs) > 0 {
						ch := x.hs[c.Intn(len(x.hs))]
						if !ch.multi && !ch.cancelled {
							_, ok := x.next(ch, c.Chance(0.2))
							hist = append(hist, fmt.Sprintf("next#=%v", ok))
						}
					}
				case 10:
					if len(x.hs) > 0 && c.Chance(0.3) {
						ch := x.hs[c.Intn(len(x.hs))]
						if !ch.multi && !ch.cancelled {
							ch.h.Cancel()
							ch.cancelled = true
							hist = append(hist, "cancelHandler")
						}
					}
				case 11:
					// two one-shot consumers block on an empty log, then one RPC changes two memberships at once:
					// each consumer must get one event (the second one depends on the signal being re-armed)
					var ch *c18Handler
					for _, h := range x.hs {
						if !h.multi && !h.cancelled {
							ch = h
						}
					}
					if ch == nil || nP < 2 {
						break
					}
					for {
						if _, ok := x.next(ch, false); !ok {
							break
						}
					}
					a, b := 0, 1
					x.attach(a)
					x.attach(b)
					// make both changes real: flip the current membership of each
					mem := map[peer.ID]bool{}
					for _, p := range x.tp.ListPeers() {
						mem[p] = true
					}
					type res struct {
						e   PeerEvent
						err error
					}
					done := make(chan res, 2)
					ctx2, cancel2 := context.WithCancel(context.Background())
					for g := 0; g < 2; g++ {
						go func() { e, err := ch.h.NextPeerEvent(ctx2); done <- res{e, err} }()
					}
					synctest.Wait()
					x.pups[a].Send(x.r.nd.ID(), vSubRPC(!mem[x.pups[a].ID()], "t"))
					x.pups[b].Send(x.r.nd.ID(), vSubRPC(!mem[x.pups[b].ID()], "t"))
					vSettle(20 * time.Millisecond)
					gotN := 0
					for len(done) > 0 {
						r := <-done
						if r.err == nil {
							ch.events = append(ch.events, r.e)
							gotN++
						}
					}
					if gotN < 2 {
						if n := x.pending(ch); n > 0 {
							fail(map[string]string{"kind": "lost_signal", "consumers": "two_one_shot"}, "%d consumer(s) still blocked with %d event(s) pending", 2-gotN, n)
						}
					}
					cancel2()
					for gotN < 2 {
						r := <-done
						gotN++
						if r.err == nil {
							ch.events = append(ch.events, r.e)
						}
					}
					ch.unordered = true // two consumers: order between them is not defined
					hist = append(hist, "two_waiters+double_change")
				default:
					vSettle(time.Duration(c.Range(1, 300)) * time.Millisecond)
				}
			}
			// stop the concurrent consumers at quiescence: anything pending for them then is a lost signal
			vSettle(100 * time.Millisecond)
			for hi, ch := range x.hs {
				if ch.multi {
					if n := x.pending(ch); n > 0 {
						fail(map[string]string{"kind": "lost_signal", "consumers": "concurrent"}, "handler %d: %d events pending while all of its consumers are blocked at quiescence", hi, n)
					}
				}
			}
			bgCancel()
			wg.Wait()
			x.finish(fail)
			c.Count("ops", len(hist))
			nev := 0
			for _, ch := range x.hs {
				nev += len(ch.events)
			}
			c.Count("events_consumed", nev)
			c.Sig(nP, len(x.hs), strings.Join(vStripDigits(hist), ",")[:min(200, len(strings.Join(vStripDigits(hist), ",")))])
			c.Nontrivial(nev >= 3 && len(x.hs) >= 1)
			if c.Idx < 3 {
				h := hist
				if len(h) > 30 {
					h = h[:30]
				}
				c.Sample(map[string]any{"puppets": nP, "handlers": len(x.hs), "history": h, "events": nev})
			}
		})
	})
}

// real time, all Ps, under -race: producers call sendNotification (as the event loop does, one goroutine)
// while several consumers run NextPeerEvent with PRNG cancellation.
func TestVerifC18Stress(t *testing.T) {
	vRun(t, "C18.stress", vCount(300, 6000), func(c *vCase) {
		h := &TopicEventHandler{evtLog: make(map[peer.ID]EventType), evtLogCh: make(chan struct{}, 1)}
		nPeers := c.Range(1, 6)
		steps := c.Range(20, 400)
		var mu sync.Mutex
		var got []PeerEvent
		ctx, cancel := context.WithCancel(context.Background())
		var wg sync.WaitGroup
		var consumed atomic.Int64
		for g, k := 0, c.Range(1, 4); g < k; g++ {
			wg.Add(1)
			go func() {
				defer wg.Done()
				for {
					e, err := h.NextPeerEvent(ctx)
					if err != nil {
						return
					}
					consumed.Add(1)
					mu.Lock()
					got = append(got, e)
					mu.Unlock()
				}
			}()
		}
		// the producer keeps its own truth
		state := map[peer.ID]bool{}
		plan := make([]int, steps)
		for i := range plan {
			plan[i] = c.Intn(nPeers)
		}
		for _, pi := range plan {
			p := peer.ID(fmt.Sprintf("P%d", pi))
			if state[p] {
				h.sendNotification(PeerEvent{PeerLeave, p})
				delete(state, p)
			} else {
				h.sendNotification(PeerEvent{PeerJoin, p})
				state[p] = true
			}
			if pi%3 == 0 {
				runtime.Gosched()
			}
		}
		// wait (bounded, wall clock = watchdog only) until the log is drained
		deadline := time.Now().Add(20 * time.Second)
		for {
			h.evtLogMx.Lock()
			n := len(h.evtLog)
			h.evtLogMx.Unlock()
			if n == 0 {
				break
			}
			if time.Now().After(deadline) {
				cancel()
				wg.Wait()
				c.Violatef(map[string]string{"kind": "lost_signal", "consumers": "stress"}, "%d events stay pending with %d blocked consumers (real-time stress)", n, 3)
				return
			}
			time.Sleep(50 * time.Microsecond)
		}
		time.Sleep(200 * time.Microsecond)
		cancel()
		wg.Wait()
		bal := map[peer.ID]int{}
		for _, e := range got {
			if e.Type == PeerJoin {
				bal[e.Peer]++
			} else {
				bal[e.Peer]--
			}
		}
		for p, b := range bal {
			want := 0
			if state[p] {
				want = 1
			}
			if b != want {
				c.Violatef(map[string]string{"kind": "unbalanced_events", "consumers": "stress"}, "peer %s: joins-leaves=%d, truth %d", string(p), b, want)
			}
		}
		for p := range state {
			if bal[p] != 1 {
				c.Violatef(map[string]string{"kind": "member_missing_from_events", "consumers": "stress"}, "peer %s is joined but the consumed events do not say so", string(p))
			}
		}
		var ps []string
		for p := range state {
			ps = append(ps, string(p))
		}
		sort.Strings(ps)
		c.Count("notifications", steps)
		c.Count("events_consumed", int(consumed.Load()))
		c.Sig(nPeers, steps/40, len(got)/20)
		c.Nontrivial(len(got) > 2)
		if c.Idx < 2 {
			c.Sample(map[string]any{"peers": nPeers, "notifications": steps, "consumed": len(got), "final_members": ps})
		}
	})
}

// Bursts: consumers block on an empty log, then k notifications arrive back to back from one goroutine (as in
// one event-loop step). One-shot consumers take a single event and leave; a looping consumer must then be woken
// for the rest (this needs the signal to be re-armed by whoever took an event while more were pending).
func TestVerifC18Burst(t *testing.T) {
	vRun(t, "C18.burst", vCount(400, 30000), func(c *vCase) {
		// one P: the consumers cannot run while the producer is in its burst, so all k notifications
		// are in the log before the first consumer wakes (the interleaving that needs the re-arm)
		prev := runtime.GOMAXPROCS(1)
		defer runtime.GOMAXPROCS(prev)
		c.Bubble(func() {
			h := &TopicEventHandler{evtLog: make(map[peer.ID]EventType), evtLogCh: make(chan struct{}, 1)}
			ctx, cancel := context.WithCancel(context.Background())
			defer cancel()
			var consumed atomic.Int64
			oneShot := c.Range(1, 3)
			loopers := c.Range(1, 2)
			var wg sync.WaitGroup
			for i := 0; i < oneShot; i++ {
				wg.Add(1)
				go func() {
					defer wg.Done()
					if _, err := h.NextPeerEvent(ctx); err == nil {
						consumed.Add(1)
					}
				}()
			}
			for i := 0; i < loopers; i++ {
				wg.Add(1)
				go func() {
					defer wg.Done()
					for {
						if _, err := h.NextPeerEvent(ctx); err != nil {
							return
						}
						consumed.Add(1)
					}
				}()
			}
			synctest.Wait()
			rounds := c.Range(1, 4)
			total := 0
			for r := 0; r < rounds; r++ {
				k := c.Range(2, 6)
				for i := 0; i < k; i++ {
					h.sendNotification(PeerEvent{PeerJoin, peer.ID(fmt.Sprintf("r%d-p%d", r, i))})
				}
				total += k
				synctest.Wait()
				h.evtLogMx.Lock()
				pending := len(h.evtLog)
				h.evtLogMx.Unlock()
				if pending > 0 {
					c.Violatef(map[string]string{"kind": "lost_signal", "consumers": "burst"}, "round %d: %d of %d events stay pending at quiescence with %d looping consumer(s) blocked (%d one-shot consumers took one each)",
						r, pending, k, loopers, oneShot)
					break
				}
			}
			if !c.Violated() && int(consumed.Load()) != total {
				c.Violatef(map[string]string{"kind": "unbalanced_events", "consumers": "burst"}, "%d notifications for distinct peers, %d events consumed", total, consumed.Load())
			}
			cancel()
			wg.Wait()
			c.Count("notifications", total)
			c.Sig(oneShot, loopers, rounds, total)
			c.Nontrivial(true)
			c.Order(oneShot, loopers, total)
			if c.Idx < 2 {
				c.Sample(map[string]any{"one_shot_consumers": oneShot, "looping_consumers": loopers, "rounds": rounds, "notifications": total})
			}
		})
	})
}
