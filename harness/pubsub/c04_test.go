//go:build verif

package pubsub

// C04 — validator verdicts decide delivery, forwarding and penalties. Each
// validator is a pure function of the payload (byte i = verdict of validator i,
// byte 4+i = its virtual delay), so the verdict vector, the placement
// (default/topic x inline/async), completion order and timeouts are inputs.
// Oracle from the statement, over the verdicts that were actually returned.

import (
	"context"
	"fmt"
	"sort"
	"strings"
	"sync"
	"testing"
	"time"

	pb "github.com/libp2p/go-libp2p-pubsub/pb"
	"github.com/libp2p/go-libp2p/core/peer"
)

var c04Verdicts = []ValidationResult{ValidationAccept, ValidationReject, ValidationIgnore, ValidationResult(7), ValidationResult(-1)}

type c04Call struct {
	val     int
	id      string
	verdict ValidationResult
	at      time.Time
	topic   string // topic of the message it was called with
	wrong   bool   // a topic validator called with another topic's message
}

type c04Rec struct {
	mu    sync.Mutex
	calls []c04Call
}

func (r *c04Rec) add(c c04Call) {
	r.mu.Lock()
	r.calls = append(r.calls, c)
	r.mu.Unlock()
}

func (r *c04Rec) of(id string) []c04Call {
	r.mu.Lock()
	defer r.mu.Unlock()
	var out []c04Call
	for _, c := range r.calls {
		if c.id == id {
			out = append(out, c)
		}
	}
	return out
}

// payload: [v0 v1 v2 v3 d0 d1 d2 d3 '|' id...]
func c04Payload(verdicts, delays [4]byte, id string) []byte {
	b := append([]byte{}, verdicts[:]...)
	b = append(b, delays[:]...)
	b = append(b, '|')
	return append(b, id...)
}

func c04IDOf(data []byte) string {
	if len(data) > 9 {
		return string(data[9:])
	}
	return string(data)
}

// c04Pad is a default validator that accepts everything (it only varies how
// many default validators there are); its calls are recorded as val 100+j.
func c04Pad(j int, rec *c04Rec) ValidatorEx {
	return func(ctx context.Context, p peer.ID, m *Message) ValidationResult {
		if d := m.GetData(); len(d) >= 9 {
			rec.add(c04Call{val: 100 + j, id: c04IDOf(d), verdict: ValidationAccept, at: time.Now(), topic: m.GetTopic()})
		}
		return ValidationAccept
	}
}

func c04Validator(idx int, rec *c04Rec, honourCtx bool, forTopic ...string) ValidatorEx {
	return func(ctx context.Context, p peer.ID, m *Message) ValidationResult {
		d := m.GetData()
		if len(d) < 9 {
			return ValidationAccept
		}
		v := c04Verdicts[int(d[idx])%len(c04Verdicts)]
		delay := time.Duration(d[4+idx]) * 10 * time.Millisecond
		if delay > 0 {
			if honourCtx {
				select {
				case <-time.After(delay):
				case <-ctx.Done():
					v = ValidationIgnore
				}
			} else {
				time.Sleep(delay)
			}
		}
		rec.add(c04Call{val: idx, id: c04IDOf(d), verdict: v, at: time.Now(), topic: m.GetTopic(), wrong: len(forTopic) > 0 && forTopic[0] != m.GetTopic()})
		return v
	}
}

type c04Place struct {
	topic  bool
	inline bool
	to     time.Duration // validator timeout (async only)
	honour bool
}

func TestVerifC04Verdicts(t *testing.T) {
	vRun(t, "C04.verdicts", vCount(300, 40000), func(c *vCase) {
		c.Bubble(func() {
			nVal := c.Range(1, 4)
			places := make([]c04Place, nVal)
			topicUsed := false
			for i := range places {
				places[i].inline = c.Chance(0.45)
				if !topicUsed && c.Chance(0.4) {
					places[i].topic = true
					topicUsed = true
				}
				if !places[i].inline && c.Chance(0.3) {
					places[i].to = time.Duration(c.Range(1, 8)) * 10 * time.Millisecond
					places[i].honour = c.Chance(0.6)
				}
			}
			// a second topic with (maybe) its own validator, and 0..4 extra accepting default validators
			uVal := -1
			if nVal < 4 && c.Chance(0.6) {
				uVal = nVal
			}
			uInline := c.Chance(0.5)
			nPad := 0
			if c.Chance(0.5) {
				nPad = c.Range(1, 4)
			}
			padFirst := c.Chance(0.5)
			throttleKind := ""
			if c.Chance(0.25) {
				throttleKind = []string{"global", "per_validator", "queue"}[c.Intn(3)]
			}
			rec := &c04Rec{}
			params := vFastParams()
			topicScore := &TopicScoreParams{TopicWeight: 1, InvalidMessageDeliveriesWeight: -1, InvalidMessageDeliveriesDecay: 0.9999,
				TimeInMeshQuantum: time.Second}
			opts := []Option{WithGossipSubParams(params),
				WithPeerScore(&PeerScoreParams{AppSpecificScore: func(peer.ID) float64 { return 1000 }, AppSpecificWeight: 1, DecayInterval: time.Hour, DecayToZero: 0.01,
					Topics: map[string]*TopicScoreParams{"t": topicScore, "u": topicScore}},
					&PeerScoreThresholds{GossipThreshold: -1e9, PublishThreshold: -2e9, GraylistThreshold: -3e9, AcceptPXThreshold: 1e9, OpportunisticGraftThreshold: 1})}
			var desc []string
			if padFirst {
				for j := 0; j < nPad; j++ {
					opts = append(opts, WithDefaultValidator(c04Pad(j, rec), WithValidatorInline(true)))
				}
			}
			for i, pl := range places {
				if pl.topic {
					continue
				}
				vo := []ValidatorOpt{WithValidatorInline(pl.inline)}
				if pl.to > 0 {
					vo = append(vo, WithValidatorTimeout(pl.to))
				}
				if throttleKind == "per_validator" && !pl.inline {
					vo = append(vo, WithValidatorConcurrency(1))
				}
				opts = append(opts, WithDefaultValidator(c04Validator(i, rec, pl.honour), vo...))
			}
			if !padFirst {
				for j := 0; j < nPad; j++ {
					opts = append(opts, WithDefaultValidator(c04Pad(j, rec), WithValidatorInline(true)))
				}
			}
			switch throttleKind {
			case "global":
				opts = append(opts, WithValidateThrottle(c.Range(1, 2)))
			case "queue":
				opts = append(opts, WithValidateQueueSize(c.Range(1, 2)), WithValidateWorkers(1))
			}
			r := vNewRig(c)
			defer r.Close()
			if err := r.Start("gossipsub", opts...); err != nil {
				c.Inconclusive("node: %v", err)
				return
			}
			nd, me := r.nd, r.nd.ID()
			for i, pl := range places {
				kind := "default"
				if pl.topic {
					kind = "topic"
					vo := []ValidatorOpt{WithValidatorInline(pl.inline)}
					if pl.to > 0 {
						vo = append(vo, WithValidatorTimeout(pl.to))
					}
					if throttleKind == "per_validator" && !pl.inline {
						vo = append(vo, WithValidatorConcurrency(1))
					}
					if err := nd.ps.RegisterTopicValidator("t", c04Validator(i, rec, pl.honour, "t"), vo...); err != nil {
						panic(err)
					}
				}
				mode := "async"
				if pl.inline {
					mode = "inline"
				}
				desc = append(desc, fmt.Sprintf("v%d:%s/%s/to=%v", i, kind, mode, pl.to))
			}
			if uVal >= 0 {
				if err := nd.ps.RegisterTopicValidator("u", c04Validator(uVal, rec, true, "u"), WithValidatorInline(uInline)); err != nil {
					panic(err)
				}
				desc = append(desc, fmt.Sprintf("v%d:topic-u/inline=%v", uVal, uInline))
			}
			if nPad > 0 {
				desc = append(desc, fmt.Sprintf("pads=%d first=%v", nPad, padFirst))
			}
			// the validators that apply to a message of the given topic
			applies := func(topic string) map[int]bool {
				out := map[int]bool{}
				for i, pl := range places {
					if !pl.topic || topic == "t" {
						out[i] = true
					}
				}
				if topic == "u" && uVal >= 0 {
					out[uVal] = true
				}
				for j := 0; j < nPad; j++ {
					out[100+j] = true
				}
				return out
			}
			sub, err := nd.ps.Subscribe("t")
			if err != nil {
				panic(err)
			}
			subU, err := nd.ps.Subscribe("u")
			if err != nil {
				panic(err)
			}
			var mu sync.Mutex
			delivered := map[string]int{}
			go func() {
				for {
					m, err := sub.Next(nd.ctx)
					if err != nil {
						return
					}
					mu.Lock()
					delivered[c04IDOf(m.Data)]++
					mu.Unlock()
				}
			}()
			go func() {
				for {
					m, err := subU.Next(nd.ctx)
					if err != nil {
						return
					}
					mu.Lock()
					delivered[c04IDOf(m.Data)]++
					mu.Unlock()
				}
			}()
			O := r.NewPuppet("O", FloodSubID, "")
			nF := c.Range(1, 3)
			var F []*vPuppet
			for i := 0; i < nF; i++ {
				F = append(F, r.NewPuppet(fmt.Sprintf("F%d", i), vAllGossipProtos[c.Intn(4)], ""))
			}
			for _, p := range append([]*vPuppet{O}, F...) {
				if err := r.Attach(p, c.Chance(0.5)); err != nil {
					c.Inconclusive("attach")
					return
				}
				p.Send(me, vSubRPC(true, "t", "u"))
			}
			vSettle(50 * time.Millisecond)
			author := r.n.genKey(false)
			classes := map[string]int{}
			fail := func(cause map[string]string, format string, args ...any) {
				c.Violatef(cause, "validators=%v throttle=%q: %s", desc, throttleKind, fmt.Sprintf(format, args...))
			}
			seq := uint64(0)
			type sent struct {
				id        string
				verdicts  [4]byte
				delays    [4]byte
				local     bool
				topic     string
				pair      bool  // sent together with a message of the other topic (penalties judged on the pair)
				fwd       []int // forwarder indices that sent a copy
				perr      error
				invBefore map[peer.ID]float64
			}
			judge := func(s *sent) {
				calls := rec.of(s.id)
				perVal := map[int]int{}
				R := "accept"
				app := applies(s.topic)
				nVal := len(app) // shadows the case's count: what applies to this message
				for _, cl := range calls {
					if cl.wrong || !app[cl.val] {
						fail(map[string]string{"kind": "foreign_validator_consulted"}, "message %s on topic %q was judged by validator %d, which does not apply to it", s.id, s.topic, cl.val)
					}
					perVal[cl.val]++
					switch {
					case cl.verdict == ValidationReject:
						R = "reject"
					case cl.verdict != ValidationAccept && R != "reject":
						R = "ignore"
					}
				}
				for v, n := range perVal {
					if n > 1 {
						fail(map[string]string{"kind": "validator_invoked_twice"}, "validator %d invoked %d times for message %s", v, n, s.id)
					}
				}
				mu.Lock()
				loc := delivered[s.id]
				mu.Unlock()
				fwd := 0
				for _, wr := range O.Wire() {
					for _, m := range wr.RPC.Publish {
						if c04IDOf(m.Data) == s.id {
							fwd++
						}
					}
				}
				snap := nd.Snap()
				info := fmt.Sprintf("msg %s on %q verdict bytes=%v delays(x10ms)=%v local=%v returned=%s -> class %s; delivered=%d forwarded=%d publishErr=%v",
					s.id, s.topic, s.verdicts, s.delays, s.local, c04Calls(calls), R, loc, fwd, s.perr)
				throttled := throttleKind != ""
				switch R {
				case "accept":
					if len(calls) < nVal && !throttled {
						// a validator that applies was never consulted yet the message may have been accepted
						if loc > 0 || fwd > 0 {
							fail(map[string]string{"kind": "accepted_without_all_validators"}, "%s (only %d of %d validators returned)", info, len(calls), nVal)
						}
					}
					full := len(calls) == nVal
					if full && !throttled && (loc != 1 || fwd != 1) {
						fail(map[string]string{"kind": "accepted_not_delivered"}, "%s", info)
					}
					if !full && (loc > 0 || fwd > 0) {
						fail(map[string]string{"kind": "accepted_without_all_validators"}, "%s", info)
					}
					if loc > 1 || fwd > 1 {
						fail(map[string]string{"kind": "duplicate_delivery"}, "%s", info)
					}
					if s.local && s.perr != nil && !throttled {
						fail(map[string]string{"kind": "publish_error_on_accept"}, "%s", info)
					}
				default:
					if loc > 0 || fwd > 0 {
						fail(map[string]string{"kind": "non_accepted_delivered", "class": R}, "%s", info)
					}
					if s.local && s.perr == nil {
						fail(map[string]string{"kind": "publish_no_error", "class": R}, "%s", info)
					}
				}
				for i, p := range F {
					d := snap.Invalid[p.ID()] - s.invBefore[p.ID()]
					sentCopy := false
					for _, k := range s.fwd {
						if k == i {
							sentCopy = true
						}
					}
					switch {
					case throttled || s.pair:
						// judged on the whole batch / pair
					case R == "reject" && sentCopy && !s.local:
						if d < 1 {
							fail(map[string]string{"kind": "forwarder_not_penalised"}, "%s; forwarder %s invalid-delivery counter rose by %v", info, p.name, d)
						}
					case d != 0:
						fail(map[string]string{"kind": "penalty_without_reject", "class": R}, "%s; %s invalid-delivery counter rose by %v (sent a copy: %v)", info, p.name, d, sentCopy)
					}
				}
				if d := snap.Invalid[O.ID()]; d != 0 {
					fail(map[string]string{"kind": "penalty_without_reject", "class": "observer"}, "%s; the observer was penalised", info)
				}
				origin := "remote"
				if s.local {
					origin = "local"
				}
				classes[origin+"/"+R]++
			}
			invNow := func() map[peer.ID]float64 { return nd.Snap().Invalid }
			mk := func(local bool) *sent {
				seq++
				s := &sent{id: fmt.Sprintf("m%d", seq), local: local, topic: "t"}
				for i := 0; i < 4; i++ {
					// accept-heavy so that multi-validator accepts are common
					s.verdicts[i] = byte([]int{0, 0, 0, 0, 1, 2, 3, 4}[c.Intn(8)])
					if i < nVal && !places[i].inline && c.Chance(0.6) {
						s.delays[i] = byte(c.Range(1, 12))
					}
				}
				return s
			}
			nMsgs := c.Range(5, 14)
			if throttleKind == "" {
				for k := 0; k < nMsgs && !c.Violated(); k++ {
					local := c.Chance(0.25)
					s := mk(local)
					s.invBefore = invNow()
					data := c04Payload(s.verdicts, s.delays, s.id)
					if !local && c.Chance(0.35) {
						// a message on each topic in one RPC: both are queued for validation before either is looked at
						s2 := mk(false)
						s2.topic = "u"
						s2.invBefore = s.invBefore
						fi := c.Intn(nF)
						m1 := vSignedMsg(author, "t", vSeqno(seq-1), data)
						m2 := vSignedMsg(author, "u", vSeqno(seq), c04Payload(s2.verdicts, s2.delays, s2.id))
						if c.Chance(0.5) {
							m1, m2 = m2, m1
						}
						F[fi].Send(me, vMsgRPC(m1, m2))
						s.fwd, s2.fwd = []int{fi}, []int{fi}
						vSettle(600 * time.Millisecond)
						// the penalty counters of the pair are judged together
						rej := 0
						for _, x := range []*sent{s, s2} {
							for _, cl := range rec.of(x.id) {
								if cl.verdict == ValidationReject {
									rej++
									break
								}
							}
						}
						if d := nd.Snap().Invalid[F[fi].ID()] - s.invBefore[F[fi].ID()]; d != float64(rej) {
							fail(map[string]string{"kind": "pair_penalty_mismatch"}, "pair %s/%s from %s: invalid-delivery counter rose by %v, %d of the two were rejected", s.id, s2.id, F[fi].name, d, rej)
						}
						after := invNow()
						s.invBefore, s2.invBefore = after, after
						s.pair, s2.pair = true, true
						judge(s)
						judge(s2)
						classes["pair"]++
						continue
					}
					if local {
						s.perr = nd.ps.Publish("t", data)
					} else {
						msg := vSignedMsg(author, "t", vSeqno(seq), data)
						// copies before, during and after validation
						offsets := []time.Duration{0}
						for i := 1; i < nF; i++ {
							offsets = append(offsets, []time.Duration{0, 5 * time.Millisecond, 40 * time.Millisecond, 400 * time.Millisecond}[c.Intn(4)])
						}
						sort.Slice(offsets, func(i, j int) bool { return offsets[i] < offsets[j] })
						var last time.Duration
						for i, off := range offsets {
							if off > last {
								time.Sleep(off - last)
								last = off
							}
							F[i].Send(me, vMsgRPC(msg))
							s.fwd = append(s.fwd, i)
						}
					}
					vSettle(600 * time.Millisecond)
					judge(s)
				}
			} else {
				// more simultaneous messages than the configured capacity
				var batch []*sent
				inv := invNow()
				for k := 0; k < nMsgs; k++ {
					s := mk(false)
					s.invBefore = inv
					for i := 0; i < nVal; i++ {
						if !places[i].inline {
							s.delays[i] = byte(c.Range(3, 10))
						}
					}
					msg := vSignedMsg(author, "t", vSeqno(seq), c04Payload(s.verdicts, s.delays, s.id))
					fi := c.Intn(nF)
					F[fi].Send(me, vMsgRPC(msg))
					s.fwd = []int{fi}
					batch = append(batch, s)
				}
				vSettle(3 * time.Second)
				// penalties are judged on the whole batch: a forwarder's counter may rise by at most the number of its rejected messages
				snap := nd.Snap()
				for i, p := range F {
					rejected := 0
					for _, s := range batch {
						if len(s.fwd) > 0 && s.fwd[0] == i {
							for _, cl := range rec.of(s.id) {
								if cl.verdict == ValidationReject {
									rejected++
									break
								}
							}
						}
					}
					if d := snap.Invalid[p.ID()] - inv[p.ID()]; d > float64(rejected) {
						fail(map[string]string{"kind": "penalty_without_reject", "class": "throttled_batch"}, "forwarder %s: invalid-delivery counter rose by %v with only %d rejected messages", p.name, d, rejected)
					}
				}
				dropped := 0
				for _, s := range batch {
					s.invBefore = snap.Invalid // per-message penalty check neutralised; delivery rules still apply
					judge(s)
					if len(rec.of(s.id)) < nVal {
						dropped++
					}
				}
				classes["throttle_dropped"] += dropped
				classes["throttle_batch"]++
			}
			for k, v := range classes {
				c.Count("class:"+k, v)
			}
			var ks []string
			for k := range classes {
				ks = append(ks, k)
			}
			sort.Strings(ks)
			c.Sig(strings.Join(desc, " "), throttleKind, strings.Join(ks, ","))
			c.Nontrivial(len(ks) >= 2)
			if c.Idx < 3 {
				c.Sample(map[string]any{"validators": desc, "throttle": throttleKind, "forwarders": nF, "messages": nMsgs, "classes": classes})
			}
		})
	})
}

func c04Calls(cs []c04Call) string {
	var parts []string
	for _, c := range cs {
		parts = append(parts, fmt.Sprintf("v%d=%d", c.val, c.verdict))
	}
	return "[" + strings.Join(parts, " ") + "]"
}

var _ = pb.Message{}
