//go:build verif

package pubsub

// C19 — the event trace is a faithful account from which state can be rebuilt.
//
// A tee EventTracer (in-memory list + JSONTracer + PBTracer writing real files)
// is attached to one node under floodsub, randomsub or gossipsub. PRNG
// histories of API calls (subscribe, double subscribe, cancel, relay, fan-out
// only topics, publish, local publish, batch publish, blacklist), peer events
// (attach, detach, stream reset) and RPCs from raw-wire puppets (subscribe,
// graft, prune, valid / duplicate / forged / validator-rejected messages) run
// with small outbound queues and slow readers. At every quiescent point the
// in-memory trace is replayed and compared with a snapshot taken inside the
// event loop; at the end the files are parsed back.

import (
	"context"
	"encoding/json"
	"fmt"
	"io"
	"log/slog"
	"os"
	"runtime"
	"sort"
	"strings"
	"sync"
	"sync/atomic"
	"syscall"
	"testing"
	"testing/synctest"
	"time"

	pb "github.com/libp2p/go-libp2p-pubsub/pb"
	"github.com/libp2p/go-libp2p/core/peer"
	"github.com/libp2p/go-libp2p/core/protocol"
	"github.com/libp2p/go-msgio/protoio"
)

type c19Sink interface {
	EventTracer
	Close()
}

type c19Tee struct {
	mu       sync.Mutex
	evs      []*pb.TraceEvent
	raw      [][]byte // marshalled at Trace time
	sinks    []c19Sink
	closedAt int
}

func (t *c19Tee) Trace(e *pb.TraceEvent) {
	t.mu.Lock()
	defer t.mu.Unlock()
	b, _ := e.Marshal()
	t.evs = append(t.evs, e)
	t.raw = append(t.raw, b)
	if t.closedAt < 0 {
		for _, s := range t.sinks {
			s.Trace(e)
		}
	}
}

func (t *c19Tee) CloseSinks() {
	t.mu.Lock()
	defer t.mu.Unlock()
	if t.closedAt >= 0 {
		return
	}
	t.closedAt = len(t.evs)
	for _, s := range t.sinks {
		s.Close()
	}
}

func (t *c19Tee) Events() []*pb.TraceEvent {
	t.mu.Lock()
	defer t.mu.Unlock()
	return append([]*pb.TraceEvent(nil), t.evs...)
}

func (t *c19Tee) Len() int {
	t.mu.Lock()
	defer t.mu.Unlock()
	return len(t.evs)
}

// ---- the replayed state

type c19State struct {
	peers  map[peer.ID]struct{}
	mesh   map[string]map[peer.ID]struct{}
	joined map[string]bool
	jl     []string // "+t" / "-t" in order
	flaws  []string
}

func c19Replay(evs []*pb.TraceEvent) *c19State {
	s := &c19State{peers: map[peer.ID]struct{}{}, mesh: map[string]map[peer.ID]struct{}{}, joined: map[string]bool{}}
	for i, e := range evs {
		switch e.GetType() {
		case pb.TraceEvent_JOIN:
			t := e.GetJoin().GetTopic()
			if s.joined[t] {
				s.flaws = append(s.flaws, fmt.Sprintf("event %d: JOIN %q while joined", i, t))
			}
			s.joined[t] = true
			s.mesh[t] = map[peer.ID]struct{}{}
			s.jl = append(s.jl, "+"+t)
		case pb.TraceEvent_LEAVE:
			t := e.GetLeave().GetTopic()
			if !s.joined[t] {
				s.flaws = append(s.flaws, fmt.Sprintf("event %d: LEAVE %q while not joined", i, t))
			}
			delete(s.joined, t)
			delete(s.mesh, t)
			s.jl = append(s.jl, "-"+t)
		case pb.TraceEvent_GRAFT:
			t := e.GetGraft().GetTopic()
			if s.mesh[t] == nil {
				s.mesh[t] = map[peer.ID]struct{}{}
			}
			s.mesh[t][peer.ID(e.GetGraft().GetPeerID())] = struct{}{}
		case pb.TraceEvent_PRUNE:
			t := e.GetPrune().GetTopic()
			delete(s.mesh[t], peer.ID(e.GetPrune().GetPeerID()))
		case pb.TraceEvent_ON_NEW_OUTBOUND_STREAM:
			s.peers[peer.ID(e.GetOnNewOutboundStream().GetPeerID())] = struct{}{}
		case pb.TraceEvent_ON_CLOSED_OUTBOUND_STREAM:
			p := peer.ID(e.GetOnClosedOutboundStream().GetPeerID())
			delete(s.peers, p)
			for _, m := range s.mesh {
				delete(m, p)
			}
		}
	}
	return s
}

// ---- ground truth inside the event loop

type c19Truth struct {
	peers  map[peer.ID]struct{}
	queues map[peer.ID]struct{}
	mesh   map[string]map[peer.ID]struct{}
	topics map[string]map[peer.ID]struct{}
	isGS   bool
	protos map[peer.ID]protocol.ID
}

func c19Snap(nd *vNode) *c19Truth {
	tr := &c19Truth{peers: map[peer.ID]struct{}{}, queues: map[peer.ID]struct{}{}, mesh: map[string]map[peer.ID]struct{}{}}
	nd.Eval(func() {
		for p := range nd.ps.peers {
			tr.queues[p] = struct{}{}
		}
		switch rt := nd.ps.rt.(type) {
		case *GossipSubRouter:
			tr.isGS = true
			tr.protos = map[peer.ID]protocol.ID{}
			for p, pr := range rt.peers {
				tr.peers[p] = struct{}{}
				tr.protos[p] = pr
			}
			tr.mesh = copyPeerSetMap(rt.mesh)
		case *RandomSubRouter:
			for p := range rt.peers {
				tr.peers[p] = struct{}{}
			}
		case *FloodSubRouter:
			for p := range nd.ps.peers {
				tr.peers[p] = struct{}{}
			}
		}
		tr.topics = map[string]map[peer.ID]struct{}{}
		for t, m := range nd.ps.topics {
			tr.topics[t] = map[peer.ID]struct{}{}
			for p := range m {
				tr.topics[t][p] = struct{}{}
			}
		}
	})
	return tr
}

// ---- independent record of what the outbound queues accepted and refused (hook in rpcQueue.push, build tag verif)

type c19PushRec struct {
	ok     bool
	urgent bool
	rpc    *RPC
}

type c19PushLog struct {
	mu   sync.Mutex
	recs []c19PushRec
}

// c19StartPushLog installs the hook (one node per process at a time: every push belongs to it).
func c19StartPushLog() *c19PushLog {
	l := &c19PushLog{}
	f := func(q *rpcQueue, rpc *RPC, urgent bool, err error) {
		cp := vCloneRPC(rpc)
		l.mu.Lock()
		l.recs = append(l.recs, c19PushRec{err == nil, urgent, cp})
		l.mu.Unlock()
	}
	verifPushedHook.Store(&f)
	return l
}

func (l *c19PushLog) Stop() { verifPushedHook.Store(nil) }

func (l *c19PushLog) Recs() []c19PushRec {
	l.mu.Lock()
	defer l.mu.Unlock()
	return append([]c19PushRec(nil), l.recs...)
}

// ---- canonical RPC meta signatures (harness's own rendering)

func c19IDs(ids []string) string { return strings.Join(ids, ",") }

func c19SigRPC(rpc *pb.RPC, idf func(*pb.Message) string) string {
	var b strings.Builder
	for _, m := range rpc.GetPublish() {
		fmt.Fprintf(&b, "M(%x|%s)", idf(m), m.GetTopic())
	}
	for _, s := range rpc.GetSubscriptions() {
		fmt.Fprintf(&b, "S(%v|%s)", s.GetSubscribe(), s.GetTopicid())
	}
	if ctl := rpc.GetControl(); ctl != nil {
		b.WriteString("C")
		for _, x := range ctl.GetIhave() {
			fmt.Fprintf(&b, "IH(%s|%x)", x.GetTopicID(), c19IDs(x.GetMessageIDs()))
		}
		for _, x := range ctl.GetIwant() {
			fmt.Fprintf(&b, "IW(%x)", c19IDs(x.GetMessageIDs()))
		}
		for _, x := range ctl.GetGraft() {
			fmt.Fprintf(&b, "G(%s)", x.GetTopicID())
		}
		for _, x := range ctl.GetPrune() {
			var ps []string
			for _, pi := range x.GetPeers() {
				ps = append(ps, string(pi.GetPeerID()))
			}
			fmt.Fprintf(&b, "P(%s|%x)", x.GetTopicID(), c19IDs(ps))
		}
		for _, x := range ctl.GetIdontwant() {
			fmt.Fprintf(&b, "ID(%x)", c19IDs(x.GetMessageIDs()))
		}
	}
	return b.String()
}

func c19Bytes(bs [][]byte) string {
	ss := make([]string, len(bs))
	for i, b := range bs {
		ss[i] = string(b)
	}
	return strings.Join(ss, ",")
}

func c19SigMeta(m *pb.TraceEvent_RPCMeta) string {
	var b strings.Builder
	for _, x := range m.GetMessages() {
		fmt.Fprintf(&b, "M(%x|%s)", string(x.GetMessageID()), x.GetTopic())
	}
	for _, s := range m.GetSubscription() {
		fmt.Fprintf(&b, "S(%v|%s)", s.GetSubscribe(), s.GetTopic())
	}
	if ctl := m.GetControl(); ctl != nil {
		b.WriteString("C")
		for _, x := range ctl.GetIhave() {
			fmt.Fprintf(&b, "IH(%s|%x)", x.GetTopic(), c19Bytes(x.GetMessageIDs()))
		}
		for _, x := range ctl.GetIwant() {
			fmt.Fprintf(&b, "IW(%x)", c19Bytes(x.GetMessageIDs()))
		}
		for _, x := range ctl.GetGraft() {
			fmt.Fprintf(&b, "G(%s)", x.GetTopic())
		}
		for _, x := range ctl.GetPrune() {
			fmt.Fprintf(&b, "P(%s|%x)", x.GetTopic(), c19Bytes(x.GetPeers()))
		}
		for _, x := range ctl.GetIdontwant() {
			fmt.Fprintf(&b, "ID(%x)", c19Bytes(x.GetMessageIDs()))
		}
	}
	return b.String()
}

func c19MetaIDs(m *pb.TraceEvent_RPCMeta) []string {
	var out []string
	for _, x := range m.GetMessages() {
		out = append(out, string(x.GetMessageID()))
	}
	return out
}

// ---- comparing replay with truth; returns "" or a description and a cause kind

func c19Compare(n *vNet, st *c19State, tr *c19Truth) (string, string) {
	if len(st.flaws) > 0 {
		return "alternation", st.flaws[0]
	}
	if a, b := n.Names(vSorted(st.peers)), n.Names(vSorted(tr.peers)); a != b {
		return "peer_set", fmt.Sprintf("replayed peer set %s, router has %s", a, b)
	}
	if tr.isGS {
		if a, b := gsTopicNames(n, st.mesh), gsTopicNames(n, tr.mesh); a != b {
			return "mesh", fmt.Sprintf("replayed mesh %s, router has %s", a, b)
		}
	}
	return "", ""
}

func c19ReadJSON(path string) ([][]byte, error) {
	f, err := os.Open(path)
	if err != nil {
		return nil, err
	}
	defer f.Close()
	var out [][]byte
	dec := json.NewDecoder(f)
	for {
		var e pb.TraceEvent
		err := dec.Decode(&e)
		if err == io.EOF {
			return out, nil
		}
		if err != nil {
			return out, err
		}
		b, _ := e.Marshal()
		out = append(out, b)
	}
}

func c19ReadPB(path string) ([][]byte, error) {
	f, err := os.Open(path)
	if err != nil {
		return nil, err
	}
	defer f.Close()
	var out [][]byte
	r := protoio.NewDelimitedReader(f, 1<<20)
	for {
		var e pb.TraceEvent
		err := r.ReadMsg(&e)
		if err == io.EOF {
			return out, nil
		}
		if err != nil {
			return out, err
		}
		b, _ := e.Marshal()
		out = append(out, b)
	}
}

func c19EvName(n *vNet, e *pb.TraceEvent) string {
	switch e.GetType() {
	case pb.TraceEvent_JOIN:
		return "JOIN " + e.GetJoin().GetTopic()
	case pb.TraceEvent_LEAVE:
		return "LEAVE " + e.GetLeave().GetTopic()
	case pb.TraceEvent_GRAFT:
		return "GRAFT " + n.Name(peer.ID(e.GetGraft().GetPeerID())) + " " + e.GetGraft().GetTopic()
	case pb.TraceEvent_PRUNE:
		return "PRUNE " + n.Name(peer.ID(e.GetPrune().GetPeerID())) + " " + e.GetPrune().GetTopic()
	case pb.TraceEvent_ON_NEW_OUTBOUND_STREAM:
		return "NEWOUT " + n.Name(peer.ID(e.GetOnNewOutboundStream().GetPeerID()))
	case pb.TraceEvent_ON_CLOSED_OUTBOUND_STREAM:
		return "CLOSEDOUT " + n.Name(peer.ID(e.GetOnClosedOutboundStream().GetPeerID()))
	}
	return ""
}

func c19Tail(n *vNet, evs []*pb.TraceEvent, k int) []string {
	var out []string
	for _, e := range evs {
		if s := c19EvName(n, e); s != "" {
			out = append(out, s)
		}
	}
	if len(out) > k {
		out = out[len(out)-k:]
	}
	return out
}

type c19SD struct {
	kind string
	to   peer.ID
	sig  string
	ids  []string
	at   int // index in the trace
}

type c19Acct struct {
	fromEv    []c19SD
	wireMsgs  map[peer.ID]map[string]bool
	dropIDs   map[peer.ID]map[string]bool
	forwarded map[string]string // message id -> a puppet that got it
	frames    int
	drops     int
	liveSends int
	hello     int
	pushes    int
	urgent    int
	urgentRef int
}

// c19Wires settles SEND_RPC / DROP_RPC against the raw tracer (one to one, metas
// rendered independently) and against what the puppets read off their wires:
// every frame has a SEND_RPC event, and every SEND_RPC to a peer whose stream
// was not closed afterwards did arrive. Call it when all queues have drained.
func c19Wires(n *vNet, nd *vNode, pups []*vPuppet, evs []*pb.TraceEvent, pushes *c19PushLog) (*c19Acct, map[string]string, string) {
	// message IDs as the node is configured to compute them (the function is an option, not part of what is judged)
	idf := nd.ps.idGen.RawID
	a := &c19Acct{wireMsgs: map[peer.ID]map[string]bool{}, dropIDs: map[peer.ID]map[string]bool{}, forwarded: map[string]string{}}
	var fromRaw []c19SD
	lastClosed := map[peer.ID]int{}
	open := map[peer.ID]bool{} // a stream is open at this point of the trace
	openAt := map[int]bool{}   // trace index of a SEND_RPC -> its peer had an open stream then
	for i, e := range evs {
		switch e.GetType() {
		case pb.TraceEvent_SEND_RPC:
			a.fromEv = append(a.fromEv, c19SD{"send", peer.ID(e.GetSendRPC().GetSendTo()), c19SigMeta(e.GetSendRPC().GetMeta()), c19MetaIDs(e.GetSendRPC().GetMeta()), i})
		case pb.TraceEvent_DROP_RPC:
			a.drops++
			a.fromEv = append(a.fromEv, c19SD{"drop", peer.ID(e.GetDropRPC().GetSendTo()), c19SigMeta(e.GetDropRPC().GetMeta()), c19MetaIDs(e.GetDropRPC().GetMeta()), i})
		case pb.TraceEvent_ON_CLOSED_OUTBOUND_STREAM:
			lastClosed[peer.ID(e.GetOnClosedOutboundStream().GetPeerID())] = i
			delete(open, peer.ID(e.GetOnClosedOutboundStream().GetPeerID()))
		case pb.TraceEvent_ON_NEW_OUTBOUND_STREAM:
			open[peer.ID(e.GetOnNewOutboundStream().GetPeerID())] = true
		}
		if e.GetType() == pb.TraceEvent_SEND_RPC {
			openAt[i] = open[peer.ID(e.GetSendRPC().GetSendTo())]
		}
	}
	for _, e := range nd.tr.Events() {
		if e.Kind == "send" || e.Kind == "drop" {
			fromRaw = append(fromRaw, c19SD{e.Kind, e.Peer, c19SigRPC(&e.RPC.RPC, idf), nil, 0})
		}
	}
	// every push the queues saw, in order, against the SEND_RPC / DROP_RPC events, in order (pushes are made by the event
	// loop, each followed at once by its event)
	if pushes != nil {
		recs := pushes.Recs()
		a.pushes = len(recs)
		for _, r := range recs {
			if r.urgent {
				a.urgent++
				if !r.ok {
					a.urgentRef++
				}
			}
		}
		for i := 0; i < len(recs) || i < len(a.fromEv); i++ {
			kind := map[bool]string{true: "send", false: "drop"}
			switch {
			case i >= len(a.fromEv):
				return a, map[string]string{"check": "queue_push_without_event", "outcome": kind[recs[i].ok], "urgent": fmt.Sprint(recs[i].urgent)},
					fmt.Sprintf("push %d (%s, urgent=%v) of %s has no SEND_RPC / DROP_RPC event (%d pushes, %d events)", i, kind[recs[i].ok], recs[i].urgent, c19SigRPC(&recs[i].rpc.RPC, idf), len(recs), len(a.fromEv))
			case i >= len(recs):
				return a, map[string]string{"check": "event_without_queue_push", "kind": a.fromEv[i].kind},
					fmt.Sprintf("event %d (%s to %s, %s) corresponds to no queue push (%d pushes, %d events)", i, a.fromEv[i].kind, n.Name(a.fromEv[i].to), a.fromEv[i].sig, len(recs), len(a.fromEv))
			}
			if sig := c19SigRPC(&recs[i].rpc.RPC, idf); kind[recs[i].ok] != a.fromEv[i].kind || sig != a.fromEv[i].sig {
				return a, map[string]string{"check": "queue_push_event_mismatch", "outcome": kind[recs[i].ok], "urgent": fmt.Sprint(recs[i].urgent), "event": a.fromEv[i].kind},
					fmt.Sprintf("push %d: the queue %s (urgent=%v) %s; event %d is %s to %s of %s", i, map[bool]string{true: "accepted", false: "refused"}[recs[i].ok], recs[i].urgent, sig,
						i, a.fromEv[i].kind, n.Name(a.fromEv[i].to), a.fromEv[i].sig)
			}
		}
	}
	if len(a.fromEv) != len(fromRaw) {
		return a, map[string]string{"check": "send_drop_count"}, fmt.Sprintf("%d SEND_RPC/DROP_RPC events, the raw tracer saw %d queue pushes", len(a.fromEv), len(fromRaw))
	}
	for i := range a.fromEv {
		x, y := a.fromEv[i], fromRaw[i]
		if x.kind != y.kind || x.to != y.to || x.sig != y.sig {
			return a, map[string]string{"check": "send_drop_meta", "kind": y.kind},
				fmt.Sprintf("push %d: event %s to %s meta %s; the queue push was %s to %s of %s", i, x.kind, n.Name(x.to), x.sig, y.kind, n.Name(y.to), y.sig)
		}
	}
	sendSigs := map[peer.ID]map[string]int{}
	liveSigs := map[peer.ID]map[string]int{}
	for _, x := range a.fromEv {
		if x.kind == "send" {
			if sendSigs[x.to] == nil {
				sendSigs[x.to] = map[string]int{}
				liveSigs[x.to] = map[string]int{}
			}
			sendSigs[x.to][x.sig]++
			// the queue accepts RPCs while the stream is still being opened (and loses them silently if that
			// fails): a push is certain to arrive only if the stream exists in the end and never closed after it
			// (the trace does not identify queues, so pushes made while no stream was open are not judged at all: the
			// queue they went into may have been dropped after a failed attempt and replaced on a later reconnect)
			c, closed := lastClosed[x.to]
			if openAt[x.at] && (!closed || c < x.at) {
				liveSigs[x.to][x.sig]++
			}
		} else {
			if a.dropIDs[x.to] == nil {
				a.dropIDs[x.to] = map[string]bool{}
			}
			for _, id := range x.ids {
				a.dropIDs[x.to][id] = true
			}
		}
	}
	for _, p := range pups {
		sigs := map[string]int{}
		maybe := map[string]int{}
		ids := map[string]bool{}
		for _, w := range p.Wire() {
			if w.From != nd.ID() {
				continue
			}
			if ctl := w.RPC.GetControl(); w.Idx == 0 && len(w.RPC.GetPublish()) == 0 &&
				len(ctl.GetIhave())+len(ctl.GetIwant())+len(ctl.GetGraft())+len(ctl.GetPrune())+len(ctl.GetIdontwant()) == 0 {
				// the hello packet (subscriptions, extensions) is written without a queue push; an empty one is not
				// written at all, and then the first frame is an ordinary announcement: it may or may not have an event
				a.hello++
				maybe[c19SigRPC(w.RPC, idf)]++
				continue
			}
			a.frames++
			for _, m := range w.RPC.GetPublish() {
				id := idf(m)
				ids[id] = true
				if _, ok := a.forwarded[id]; !ok {
					a.forwarded[id] = p.name
				}
			}
			sigs[c19SigRPC(w.RPC, idf)]++
		}
		a.wireMsgs[p.ID()] = ids
		for sig, k := range sigs {
			if have := sendSigs[p.ID()][sig]; have < k {
				return a, map[string]string{"check": "wire_without_send_event"},
					fmt.Sprintf("%s received %d RPCs %s, the trace has %d SEND_RPC events for it", p.name, k, sig, have)
			}
		}
		for sig, k := range liveSigs[p.ID()] {
			a.liveSends += k
			if sigs[sig]+maybe[sig] < k {
				return a, map[string]string{"check": "send_event_without_wire"},
					fmt.Sprintf("the trace has %d SEND_RPC events to %s for %s on a stream that was never closed afterwards; %d arrived", k, p.name, sig, sigs[sig])
			}
		}
	}
	return a, nil, ""
}

type c19Pup struct {
	p        *vPuppet
	proto    protocol.ID
	attached bool
	subbed   map[string]bool
	seq      uint64
	slow     bool
	black    bool
}

type c19Pub struct {
	id    string
	topic string
	at    int // trace length before the publish
	rcpt  []peer.ID
}

func TestVerifC19World(t *testing.T) {
	vRun(t, "C19.world", vCount(400, 25000), func(c *vCase) {
		dir, err := os.MkdirTemp("", "c19")
		if err != nil {
			c.Inconclusive("tmp dir: %v", err)
			return
		}
		defer os.RemoveAll(dir)
		c.Bubble(func() {
			router := []string{"floodsub", "randomsub", "gossipsub", "gossipsub"}[c.Intn(4)]
			jt, err1 := NewJSONTracer(dir + "/trace.json")
			pt, err2 := NewPBTracer(dir + "/trace.pb")
			if err1 != nil || err2 != nil {
				c.Inconclusive("tracers: %v %v", err1, err2)
				return
			}
			tee := &c19Tee{closedAt: -1, sinks: []c19Sink{jt, pt}}
			pushLog := c19StartPushLog()
			defer pushLog.Stop()
			r := vNewRig(c)
			defer r.Close()
			defer tee.CloseSinks()
			smallQ := c.Chance(0.4)
			flood := c.Chance(0.5)
			opts := []Option{WithEventTracer(tee), WithSeenMessagesTTL(time.Hour)}
			// one case in six runs without signatures and authors (content-addressed message IDs): a publication that brings its
			// own key is then refused by the node's own signing policy, and is still a publication attempt
			noSign := c.Chance(0.16)
			if noSign {
				opts = append(opts, WithMessageSignaturePolicy(StrictNoSign), WithMessageIdFn(func(m *pb.Message) string { return m.GetTopic() + "|" + string(m.GetData()) }))
			}
			if smallQ {
				opts = append(opts, WithPeerOutboundQueueSize(c.Range(1, 3)))
			}
			if router == "gossipsub" {
				p := vFastParams()
				p.D, p.Dlo, p.Dhi, p.Dout, p.Dscore, p.Dlazy = 4, 3, 5, 1, 2, 2
				p.PruneBackoff, p.UnsubscribeBackoff = 3*time.Second, time.Second
				if c.Chance(0.5) {
					// nearly every message is "large": IDONTWANT goes to the mesh ahead of it, through the urgent lane of the queues
					p.IDontWantMessageThreshold = 8
				}
				opts = append(opts, WithGossipSubParams(p))
				if flood {
					opts = append(opts, WithFloodPublish(true))
				}
				if c.Chance(0.5) {
					opts = append(opts, WithPeerExchange(true))
				}
			}
			if err := r.Start(router, opts...); err != nil {
				c.Inconclusive("node: %v", err)
				return
			}
			nd := r.nd
			n := r.n
			supported := map[string][]protocol.ID{
				"floodsub":  {FloodSubID},
				"randomsub": {RandomSubID, FloodSubID},
				"gossipsub": append(append([]protocol.ID{}, vAllGossipProtos...), FloodSubID),
			}[router]
			var pups []*c19Pup
			byID := map[peer.ID]*c19Pup{}
			for i, np := 0, c.Range(3, 6); i < np; i++ {
				pr := supported[c.Intn(len(supported))]
				if c.Chance(0.08) {
					pr = protocol.ID("/other/1.0.0")
				}
				gp := &c19Pup{p: r.NewPuppet(fmt.Sprintf("p%d", i), pr, ""), proto: pr, subbed: map[string]bool{}}
				pups = append(pups, gp)
				byID[gp.p.ID()] = gp
			}
			topics := []string{"t", "u", "f"}
			handles := map[string]*Topic{}
			fanoutOnly := map[string]bool{}
			subs := map[string][]*Subscription{}
			var deadSubs []*Subscription
			relays := map[string][]RelayCancelFunc{}
			var deadRelays []RelayCancelFunc
			var expectJL []string
			var hist []string
			note := func(f string, a ...any) {
				hist = append(hist, fmt.Sprintf("+%v ", time.Since(r.born).Round(time.Millisecond))+fmt.Sprintf(f, a...))
			}
			fail := func(cause map[string]string, format string, args ...any) {
				cause["router"] = router
				h := hist
				if len(h) > 50 {
					h = h[len(h)-50:]
				}
				c.Violatef(cause, "%s\n router=%s smallQ=%v\n history=%v\n trace tail=%v", fmt.Sprintf(format, args...), router, smallQ, h, c19Tail(n, tee.Events(), 40))
			}
			interest := func(tn string) bool {
				if fanoutOnly[tn] {
					return len(relays[tn]) > 0
				}
				return len(subs[tn]) > 0 || len(relays[tn]) > 0
			}
			handle := func(tn string) *Topic {
				if h := handles[tn]; h != nil {
					return h
				}
				var topts []TopicOpt
				if tn == "f" {
					topts = append(topts, FanoutOnly())
					fanoutOnly[tn] = true
				}
				h, err := nd.ps.Join(tn, topts...)
				if err != nil {
					panic(err)
				}
				handles[tn] = h
				return h
			}
			// validator on "u": data decides
			inline := c.Chance(0.5)
			nd.ps.RegisterTopicValidator("u", func(ctx context.Context, from peer.ID, m *Message) ValidationResult {
				switch {
				case strings.HasPrefix(string(m.Data), "rej"):
					return ValidationReject
				case strings.HasPrefix(string(m.Data), "ign"):
					return ValidationIgnore
				}
				return ValidationAccept
			}, WithValidatorInline(inline))

			// ground truth of accepted messages: what subscriptions received, what went out on the wire
			received := map[string]int{} // id -> number of subscriptions that got it
			liveTopicSub := map[string]bool{}
			drainSub := func(s *Subscription) {
				for {
					select {
					case m, ok := <-s.ch:
						if !ok {
							return
						}
						received[nd.ps.idGen.ID(m)]++
					default:
						return
					}
				}
			}
			drain := func() {
				for _, ss := range subs {
					for _, s := range ss {
						drainSub(s)
					}
				}
			}
			var pubs []*c19Pub
			nPublishAttempts := 0
			var attemptTopics []string
			countType := func(evs []*pb.TraceEvent, ty pb.TraceEvent_Type) int {
				k := 0
				for _, e := range evs {
					if e.GetType() == ty {
						k++
					}
				}
				return k
			}
			recipients := func(tn string) []peer.ID {
				tr := c19Snap(nd)
				if router == "floodsub" {
					// the floodsub router has no peer set; the queue table also lists peers whose stream is still being
					// (re)opened, and what is pushed into such a queue is lost if the attempt fails: only peers with an
					// open stream according to the trace so far are certain recipients
					tr.peers = c19Replay(tee.Events()).peers
				}
				var out []peer.ID
				for _, gp := range pups {
					id := gp.p.ID()
					_, a := tr.peers[id]
					_, b := tr.queues[id]
					_, d := tr.topics[tn][id]
					if tr.isGS && !flood && tr.protos[id] != FloodSubID {
						// without flood publishing only mesh members (and floodsub peers) are certain recipients
						if _, inMesh := tr.mesh[tn][id]; !inMesh {
							continue
						}
					}
					if a && b && d && !gp.black {
						out = append(out, id)
					}
				}
				return out
			}
			nRefused := 0
			ownPublish := func(tn string, data string, local, batch bool) {
				h := handle(tn)
				rc := recipients(tn)
				at := tee.Len()
				before := countType(tee.Events(), pb.TraceEvent_PUBLISH_MESSAGE)
				var err error
				k := 1
				refused := false
				var batchLocal []bool
				if batch {
					var mb MessageBatch
					k = c.Range(1, 3)
					for i := 0; i < k; i++ {
						var po []PubOpt
						loc := c.Chance(0.3)
						if loc {
							po = append(po, WithLocalPublication(true))
						}
						batchLocal = append(batchLocal, loc)
						if e := h.AddToBatch(context.Background(), &mb, []byte(fmt.Sprintf("%s/%d", data, i)), po...); e != nil {
							err = e
						}
					}
					if e := nd.ps.PublishBatch(&mb); e != nil {
						err = e
					}
				} else {
					var po []PubOpt
					if local {
						po = append(po, WithLocalPublication(true))
					}
					if noSign && !local && c.Chance(0.3) {
						k := r.n.genKey(false)
						id, _ := peer.IDFromPrivateKey(k)
						po = append(po, WithSecretKeyAndPeerId(k, id))
						refused = true
					}
					err = h.Publish(context.Background(), []byte(data), po...)
					if refused && err == nil {
						fail(map[string]string{"check": "signed_publication_accepted_without_signing"}, "a publication signed with its own key was accepted under StrictNoSign")
						return
					}
				}
				vSettle(0)
				evs := tee.Events()
				after := countType(evs, pb.TraceEvent_PUBLISH_MESSAGE)
				nPublishAttempts += k
				for i := 0; i < k; i++ {
					attemptTopics = append(attemptTopics, tn)
				}
				note("publish(%s,%q,local=%v,batch=%v,k=%d)=%v", tn, data, local, batch, k, err)
				if after-before != k {
					fail(map[string]string{"check": "publish_event_count", "batch": fmt.Sprint(batch)},
						"%d publication attempts on %q produced %d PUBLISH_MESSAGE events", k, tn, after-before)
					return
				}
				nth := -1
				for _, e := range evs[at:] {
					if e.GetType() != pb.TraceEvent_PUBLISH_MESSAGE {
						continue
					}
					nth++
					if e.GetPublishMessage().GetTopic() != tn {
						fail(map[string]string{"check": "publish_event_topic"}, "PUBLISH_MESSAGE names topic %q, published on %q", e.GetPublishMessage().GetTopic(), tn)
						return
					}
					if nth < len(batchLocal) && batchLocal[nth] {
						continue // stays in this process: no recipients to account for
					}
					if refused {
						nRefused++
						continue
					}
					if err == nil && !local && !strings.HasPrefix(data, "rej") && !strings.HasPrefix(data, "ign") {
						pubs = append(pubs, &c19Pub{id: string(e.GetPublishMessage().GetMessageID()), topic: tn, at: at, rcpt: rc})
					}
				}
			}
			slowOn := func(gp *c19Pup, on bool) {
				gp.slow = on
				nd.h.inj.clear()
				for _, q := range pups {
					if q.slow {
						nd.h.inj.add(&vRule{op: vOpWrite, peer: q.p.ID(), delay: 700 * time.Millisecond})
					}
				}
			}
			quiet := func(where string) bool {
				drain()
				evs := tee.Events()
				st := c19Replay(evs)
				tr := c19Snap(nd)
				if router == "floodsub" && where != "at the end" {
					// the floodsub router keeps no peer set of its own; the node's queue table also holds peers
					// whose stream is being re-opened after a back-off, so it is compared once everything is quiet
					tr.peers = st.peers
				}
				if kind, what := c19Compare(n, st, tr); kind != "" {
					fail(map[string]string{"check": kind}, "%s: %s", where, what)
					return false
				}
				if a, b := strings.Join(st.jl, " "), strings.Join(expectJL, " "); a != b {
					fail(map[string]string{"check": "join_leave_sequence"}, "%s: trace has JOIN/LEAVE sequence [%s], the node's interest changed as [%s]", where, a, b)
					return false
				}
				c.State(router, len(st.peers), gsTopicNames(n, st.mesh), strings.Join(st.jl, ""))
				return true
			}

			if smallQ {
				for _, gp := range pups {
					if c.Chance(0.4) {
						slowOn(gp, true)
					}
				}
			}
			// ---- the history
			nOps := c.Range(15, 70)
			closeAt := -1
			if c.Chance(0.3) {
				closeAt = c.Intn(nOps)
			}
			kinds := map[string]int{}
			for i := 0; i < nOps && !c.Violated(); i++ {
				if i == closeAt {
					tee.CloseSinks()
					note("close tracers")
				}
				gp := pups[c.Intn(len(pups))]
				tn := topics[c.Intn(len(topics))]
				was := interest(tn)
				kind := ""
				switch k := c.Intn(24); k {
				case 0, 1:
					kind = "attach"
					if gp.attached || gp.black {
						kind = ""
						break
					}
					gp.p.Refuse(false)
					if err := r.Attach(gp.p, c.Chance(0.5)); err != nil && gp.proto != "/other/1.0.0" {
						// the stream may be refused; the connection still exists
					}
					gp.attached = true
					for k := range gp.subbed {
						delete(gp.subbed, k)
					}
				case 2:
					kind = "detach"
					if !gp.attached {
						kind = ""
						break
					}
					n.Disconnect(nd.ID(), gp.p.ID())
					gp.p.ForgetStreams()
					gp.attached = false
				case 3:
					kind = "closein"
					if !gp.attached {
						kind = ""
						break
					}
					if c.Chance(0.35) {
						// the peer also refuses every new stream from the node: it stays connected, keeps its own stream
						// (it can still GRAFT over it) but the node has no outbound stream to it any more
						kind = "closein_refuse"
						gp.p.Refuse(true)
					}
					gp.p.CloseIn(nd.ID(), true)
					if kind == "closein_refuse" && router == "gossipsub" && c.Chance(0.7) {
						// ... and it grafts itself over its own stream (accepted although the node has no stream to it), then maybe leaves
						vSettle(time.Duration(c.Range(0, 1500)) * time.Millisecond)
						for _, jt := range topics {
							if interest(jt) {
								gp.p.Send(nd.ID(), vSubRPC(true, jt))
								gp.subbed[jt] = true
								gp.p.Send(nd.ID(), vGraftRPC(jt))
							}
						}
						kind = "closein_refuse_graft"
						switch c.Intn(4) {
						case 0, 1:
							vSettle(20 * time.Millisecond)
							n.Disconnect(nd.ID(), gp.p.ID())
							gp.p.ForgetStreams()
							gp.attached = false
							kind = "closein_refuse_graft_detach"
						case 2:
							// ... or is banned while it sits in the mesh without being a router peer (its own stream stays open)
							if !gp.black {
								vSettle(20 * time.Millisecond)
								nd.ps.BlacklistPeer(gp.p.ID())
								gp.black = true
								kind = "closein_refuse_graft_blacklist"
							}
						}
					}
				case 4, 5, 6:
					if !gp.attached {
						break
					}
					on := !gp.subbed[tn]
					kind = "psub"
					gp.p.Send(nd.ID(), vSubRPC(on, tn))
					gp.subbed[tn] = on
				case 7:
					if !gp.attached || router != "gossipsub" {
						break
					}
					kind = "pgraft"
					gp.p.Send(nd.ID(), vGraftRPC(tn))
				case 8:
					if !gp.attached || router != "gossipsub" {
						break
					}
					if c.Chance(0.5) {
						kind = "pihave"
						tt := tn
						gp.seq++
						gp.p.Send(nd.ID(), &pb.RPC{Control: &pb.ControlMessage{Ihave: []*pb.ControlIHave{{TopicID: &tt,
							MessageIDs: []string{fmt.Sprintf("adv-%s-%d", gp.p.name, gp.seq), fmt.Sprintf("adv2-%s-%d", gp.p.name, gp.seq)}}}}})
						break
					}
					kind = "pprune"
					gp.p.Send(nd.ID(), vPruneRPC(uint64(c.Intn(3)), tn))
				case 9, 10, 11:
					kind = "subscribe"
					s, err := handle(tn).Subscribe()
					if err != nil {
						kind = ""
						break
					}
					subs[tn] = append(subs[tn], s)
				case 12, 13:
					if len(subs[tn]) == 0 {
						if len(deadSubs) > 0 && c.Chance(0.5) {
							kind = "recancel"
							deadSubs[c.Intn(len(deadSubs))].Cancel()
						}
						break
					}
					kind = "cancel"
					drain()
					j := c.Intn(len(subs[tn]))
					s := subs[tn][j]
					subs[tn] = append(subs[tn][:j:j], subs[tn][j+1:]...)
					s.Cancel()
					deadSubs = append(deadSubs, s)
				case 14:
					kind = "relay"
					cancel, err := handle(tn).Relay()
					if err != nil {
						kind = "relay_refused"
						break
					}
					relays[tn] = append(relays[tn], cancel)
				case 15:
					if len(relays[tn]) == 0 {
						if len(deadRelays) > 0 && c.Chance(0.5) {
							kind = "rerelaycancel"
							deadRelays[c.Intn(len(deadRelays))]()
						}
						break
					}
					kind = "relaycancel"
					j := len(relays[tn]) - 1
					relays[tn][j]()
					deadRelays = append(deadRelays, relays[tn][j])
					relays[tn] = relays[tn][:j]
				case 16, 17:
					kind = "publish"
					data := fmt.Sprintf("own-%d", i)
					if tn == "u" && c.Chance(0.3) {
						data = []string{"rej", "ign"}[c.Intn(2)] + data
					}
					ownPublish(tn, data, c.Chance(0.15), false)
				case 18:
					if router != "gossipsub" {
						break
					}
					kind = "batch"
					ownPublish(tn, fmt.Sprintf("bat-%d", i), false, true)
				case 19, 20:
					if !gp.attached {
						break
					}
					kind = "pmsg"
					gp.seq++
					data := fmt.Sprintf("%s-%d", gp.p.name, gp.seq)
					variant := c.Intn(6)
					if tn == "u" && variant == 0 {
						data = "rej" + data
						kind = "pmsg_rej"
					}
					if tn == "u" && variant == 1 {
						data = "ign" + data
						kind = "pmsg_ign"
					}
					mk := func(data string) *pb.Message {
						if noSign {
							tt := tn
							return &pb.Message{Data: []byte(data), Topic: &tt}
						}
						return vSignedMsg(gp.p.key, tn, vSeqno(gp.seq), []byte(data))
					}
					m := mk(data)
					if variant == 5 && c.Chance(0.5) {
						// large enough for IDONTWANT to the mesh
						m = mk(data + strings.Repeat("z", 1500))
						kind = "pmsg_big"
					}
					if variant == 2 {
						m.Data = append(m.Data, 'x')
						kind = "pmsg_forged"
					}
					rpc := vMsgRPC(m)
					if variant == 3 {
						rpc = vMsgRPC(m, m)
						kind = "pmsg_dup"
					}
					gp.p.Send(nd.ID(), rpc)
					if variant == 4 {
						// the same message again from another puppet
						for _, q := range pups {
							if q != gp && q.attached {
								q.p.Send(nd.ID(), vMsgRPC(m))
								kind = "pmsg_dup2"
								break
							}
						}
					}
				case 23:
					// a mesh member that speaks v1.2 or later reads slowly while somebody else sends a run of large messages:
					// every one of them makes the node push IDONTWANT through the urgent lane of a queue that is filling up
					if router != "gossipsub" || !smallQ || !gp.attached || !GossipSubDefaultFeatures(GossipSubFeatureIdontwant, gp.proto) || len(subs[tn]) == 0 {
						break
					}
					var sender *c19Pup
					for _, q := range pups {
						if q != gp && q.attached {
							sender = q
						}
					}
					if sender == nil {
						break
					}
					kind = "idontwant_squeeze"
					gp.p.Send(nd.ID(), vSubRPC(true, tn))
					gp.subbed[tn] = true
					gp.p.Send(nd.ID(), vGraftRPC(tn))
					vSettle(5 * time.Millisecond)
					slowOn(gp, true)
					for j, J := 0, c.Range(3, 8); j < J; j++ {
						sender.seq++
						data := fmt.Sprintf("%s-sq-%d-%s", sender.p.name, sender.seq, strings.Repeat("z", 1500))
						var m *pb.Message
						if noSign {
							tt := tn
							m = &pb.Message{Data: []byte(data), Topic: &tt}
						} else {
							m = vSignedMsg(sender.p.key, tn, vSeqno(sender.seq), []byte(data))
						}
						sender.p.Send(nd.ID(), vMsgRPC(m))
					}
				case 21:
					if !smallQ {
						break
					}
					kind = "slow"
					slowOn(gp, !gp.slow)
				case 22:
					if c.Chance(0.2) && !gp.black {
						kind = "blacklist"
						nd.ps.BlacklistPeer(gp.p.ID())
						gp.black = true
					} else if router == "gossipsub" {
						kind = "tick"
						time.Sleep(nd.gs.params.HeartbeatInterval)
					}
				default:
					kind = "wait"
					time.Sleep(time.Duration(c.Range(1, 400)) * time.Millisecond)
				}
				if kind == "" {
					continue
				}
				kinds[kind]++
				if kind != "publish" && kind != "batch" {
					name := gp.p.name
					note("%s(%s,%s)", kind, name, tn)
				}
				if now := interest(tn); now != was {
					if now {
						expectJL = append(expectJL, "+"+tn)
					} else {
						expectJL = append(expectJL, "-"+tn)
					}
				}
				for tn := range subs {
					liveTopicSub[tn] = len(subs[tn]) > 0
				}
				vSettle(time.Duration(c.Range(0, 30)) * time.Millisecond)
				if !quiet(fmt.Sprintf("after op %d %s", i, kind)) {
					return
				}
			}
			if c.Violated() {
				return
			}
			// ---- let the queues drain, then the final account
			for _, gp := range pups {
				gp.slow = false
			}
			nd.h.inj.clear()
			time.Sleep(40 * time.Second)
			vSettle(0)
			if !quiet("at the end") {
				return
			}
			evs := tee.Events()
			// DELIVER_MESSAGE: exactly one per accepted message, never two
			delivers := map[string]int{}
			for _, e := range evs {
				if e.GetType() == pb.TraceEvent_DELIVER_MESSAGE {
					delivers[string(e.GetDeliverMessage().GetMessageID())]++
				}
			}
			accepted := map[string]string{}
			for id := range received {
				accepted[id] = "a local subscription received it"
			}
			var rawPups []*vPuppet
			for _, gp := range pups {
				rawPups = append(rawPups, gp.p)
			}
			acct, cause, what := c19Wires(n, nd, rawPups, evs, pushLog)
			if cause != nil {
				fail(cause, "%s", what)
				return
			}
			for id, who := range acct.forwarded {
				if _, ok := accepted[id]; !ok {
					accepted[id] = "it was forwarded to " + who
				}
			}
			for id, why := range accepted {
				if delivers[id] != 1 {
					fail(map[string]string{"check": "deliver_event_count", "have": fmt.Sprint(delivers[id])},
						"message %x was accepted (%s) and has %d DELIVER_MESSAGE events", id, why, delivers[id])
					return
				}
			}
			for id, k := range delivers {
				if k > 1 {
					fail(map[string]string{"check": "deliver_event_count", "have": "many"}, "message %x has %d DELIVER_MESSAGE events", id, k)
					return
				}
			}
			// PUBLISH_MESSAGE: one per attempt, in order, on the right topic
			var pubTopics []string
			for _, e := range evs {
				if e.GetType() == pb.TraceEvent_PUBLISH_MESSAGE {
					pubTopics = append(pubTopics, e.GetPublishMessage().GetTopic())
				}
			}
			if strings.Join(pubTopics, ",") != strings.Join(attemptTopics, ",") {
				fail(map[string]string{"check": "publish_event_sequence"}, "PUBLISH_MESSAGE topics %v, attempts %v", pubTopics, attemptTopics)
				return
			}
			// every own publication that was accepted has its DELIVER under the same id
			for _, p := range pubs {
				if delivers[p.id] != 1 {
					fail(map[string]string{"check": "publish_without_deliver"}, "own publication %x on %q succeeded and has %d DELIVER_MESSAGE events", p.id, p.topic, delivers[p.id])
					return
				}
			}
			// conservation of own publications: on the wire, or dropped with an event, or the stream died
			closedAfter := func(p peer.ID, at int) bool {
				for _, e := range evs[at:] {
					if e.GetType() == pb.TraceEvent_ON_CLOSED_OUTBOUND_STREAM && peer.ID(e.GetOnClosedOutboundStream().GetPeerID()) == p {
						return true
					}
				}
				return false
			}
			checkedRcpt := 0
			for _, p := range pubs {
				for _, to := range p.rcpt {
					if acct.wireMsgs[to][p.id] || acct.dropIDs[to][p.id] || closedAfter(to, p.at) {
						checkedRcpt++
						continue
					}
					sends := 0
					for _, x := range acct.fromEv {
						if x.kind == "send" && x.to == to {
							for _, id := range x.ids {
								if id == p.id {
									sends++
								}
							}
						}
					}
					var tail []string
					for _, w := range byID[to].p.Wire() {
						tail = append(tail, fmt.Sprintf("+%v#%d:%s", w.T.Sub(r.born).Round(time.Millisecond), w.Idx, c19SigRPC(w.RPC, nd.ps.idGen.RawID)))
					}
					if len(tail) > 12 {
						tail = tail[len(tail)-12:]
					}
					fail(map[string]string{"check": "lost_without_drop_event", "send_events": fmt.Sprint(sends)},
						"own publication %x on %q was due to %s: not on its wire, no DROP_RPC event, stream never closed (%d SEND_RPC events carry it)\n wire tail=%v",
						p.id, p.topic, n.Name(to), sends, tail)
					return
				}
			}
			// the files
			nd.cancel()
			vSettle(0)
			tee.CloseSinks()
			synctest.Wait()
			tee.mu.Lock()
			want := tee.raw[:tee.closedAt]
			tee.mu.Unlock()
			for _, f := range []struct {
				name string
				read func(string) ([][]byte, error)
			}{{"trace.json", c19ReadJSON}, {"trace.pb", c19ReadPB}} {
				got, err := f.read(dir + "/" + f.name)
				if err != nil {
					fail(map[string]string{"check": "file_unreadable", "file": f.name}, "%s: %v after %d events", f.name, err, len(got))
					return
				}
				if len(got) != len(want) {
					fail(map[string]string{"check": "file_event_count", "file": f.name}, "%s holds %d events, %d were traced before Close", f.name, len(got), len(want))
					return
				}
				for i := range got {
					if string(got[i]) != string(want[i]) {
						var a, b pb.TraceEvent
						a.Unmarshal(got[i])
						b.Unmarshal(want[i])
						fail(map[string]string{"check": "file_event_differs", "file": f.name}, "%s event %d is %v, traced %v", f.name, i, a.String(), b.String())
						return
					}
				}
			}
			ks := make([]string, 0, len(kinds))
			for k := range kinds {
				ks = append(ks, k)
			}
			sort.Strings(ks)
			if c.Idx < 3 {
				h := hist
				if len(h) > 25 {
					h = h[:25]
				}
				c.Sample(map[string]any{"router": router, "small_queues": smallQ, "trace_events": len(evs), "join_leave": expectJL, "deliver_events": len(delivers),
					"publish_attempts": nPublishAttempts, "send_drop_events": len(acct.fromEv), "file_events_each": len(want), "first_ops": h})
			}
			c.Sig(router, flood && router == "gossipsub", ks, len(expectJL) > 0, len(pubs) > 0)
			c.Nontrivial(len(evs) > 20 && len(kinds) >= 4)
			c.Count("trace_events", len(evs))
			c.Count("join_leave", len(expectJL))
			c.Count("deliver", len(delivers))
			c.Count("publish_attempts", nPublishAttempts)
			c.Count("publish_refused_by_own_policy", nRefused)
			c.Count("send_drop", len(acct.fromEv))
			c.Count("queue_pushes_seen_by_hook", acct.pushes)
			c.Count("urgent_pushes", acct.urgent)
			c.Count("urgent_pushes_refused", acct.urgentRef)
			c.Count("drop_events", acct.drops)
			c.Count("wire_frames", acct.frames)
			c.Count("live_sends_on_wire", acct.liveSends)
			c.Count("conserved_recipients", checkedRcpt)
			c.Count("file_events", 2*len(want))
			c.Count("router_"+router, 1)
			_ = liveTopicSub
		})
	})
}

// C19.mesh — the gossipsub mesh workload of C07 (heartbeats, scoring,
// opportunistic grafting, direct peers, backoff) with the event tracer
// attached: after every operation and every heartbeat the replayed trace must
// equal the router's peer set and meshes.
func TestVerifC19Mesh(t *testing.T) {
	vRun(t, "C19.mesh", vCount(250, 15000), func(c *vCase) {
		c.Bubble(func() {
			tee := &c19Tee{closedAt: 0}
			pushLog := c19StartPushLog()
			defer pushLog.Stop()
			params := gsParams(c)
			scoring := c.Chance(0.6)
			w := gsNewWorld(c, gsConfig{params: params, scoring: scoring, nPups: c.Range(4, 12), floodSub: 0.15,
				th:   PeerScoreThresholds{GossipThreshold: -1, PublishThreshold: -2, GraylistThreshold: -10, AcceptPXThreshold: 5, OpportunisticGraftThreshold: 2},
				opts: []Option{WithEventTracer(tee), WithPeerExchange(c.Chance(0.5))}})
			if w == nil {
				return
			}
			defer w.Close()
			checks := 0
			var jl []string
			check := func(where string) {
				if c.Violated() {
					return
				}
				st := c19Replay(tee.Events())
				tr := c19Snap(w.nd)
				if kind, what := c19Compare(w.r.n, st, tr); kind != "" {
					h := w.hist
					if len(h) > 40 {
						h = h[len(h)-40:]
					}
					c.Violatef(map[string]string{"check": kind, "router": "gossipsub"}, "%s: %s\n history=%v\n trace tail=%v", where, what, h, c19Tail(w.r.n, tee.Events(), 40))
					return
				}
				if a, b := strings.Join(st.jl, " "), strings.Join(jl, " "); a != b {
					c.Violatef(map[string]string{"check": "join_leave_sequence", "router": "gossipsub"}, "%s: trace has [%s], the node's interest changed as [%s]", where, a, b)
					return
				}
				checks++
				c.State(len(st.peers), gsTopicNames(w.r.n, st.mesh))
			}
			w.afterOp = func(op *gsOp) {
				switch op.Kind {
				case "join":
					jl = append(jl, "+"+op.Topic)
				case "leave":
					jl = append(jl, "-"+op.Topic)
				}
				check("after " + op.Kind)
			}
			w.onTick = func(k int, s0, s1 *vGSnap, evs []vEvt, marks []int) {
				check(fmt.Sprintf("after heartbeat %d", k))
			}
			w.Populate(0.7, 0.7)
			check("after populate")
			w.RunTicks(c.Range(4, 25), 6)
			if c.Violated() {
				return
			}
			time.Sleep(2 * params.HeartbeatInterval)
			vSettle(0)
			check("at the end")
			if c.Violated() {
				return
			}
			evs := tee.Events()
			var rawPups []*vPuppet
			for _, gp := range w.pups {
				rawPups = append(rawPups, gp.p)
			}
			acct, cause, what := c19Wires(w.r.n, w.nd, rawPups, evs, pushLog)
			if cause != nil {
				cause["router"] = "gossipsub"
				h := w.hist
				if len(h) > 40 {
					h = h[len(h)-40:]
				}
				c.Violatef(cause, "%s\n history=%v", what, h)
				return
			}
			c.Count("send_drop", len(acct.fromEv))
			c.Count("wire_frames", acct.frames)
			c.Count("live_sends_on_wire", acct.liveSends)
			grafts, prunes := 0, 0
			for _, e := range evs {
				switch e.GetType() {
				case pb.TraceEvent_GRAFT:
					grafts++
				case pb.TraceEvent_PRUNE:
					prunes++
				}
			}
			if c.Idx < 2 {
				c.Sample(map[string]any{"params": fmt.Sprintf("D=%d Dlo=%d Dhi=%d Dout=%d", params.D, params.Dlo, params.Dhi, params.Dout), "scoring": scoring,
					"trace_events": len(evs), "graft_events": grafts, "prune_events": prunes, "replay_checks": checks})
			}
			c.Sig(w.KindList(), grafts > 0, prunes > 0, scoring)
			c.Nontrivial(grafts > 0 && checks > 5)
			c.Count("trace_events", len(evs))
			c.Count("graft_events", grafts)
			c.Count("prune_events", prunes)
			c.Count("replay_checks", checks)
		})
	})
}

// C19.files — the JSON and protobuf file tracers under concurrent producers and
// a Close at an arbitrary moment, in real time (race detector on). The tracer
// writes into a FIFO, so end-of-file on the reading side is the writer's own
// Close and no wall-clock wait decides anything. Per producer the file must
// hold a gap-free prefix of what it traced, at least everything whose Trace
// call returned before Close was called and nothing started after Close returned.
func TestVerifC19Files(t *testing.T) {
	vRun(t, "C19.files", vCount(120, 2500), func(c *vCase) {
		dir, err := os.MkdirTemp("", "c19f")
		if err != nil {
			c.Inconclusive("tmp dir: %v", err)
			return
		}
		defer os.RemoveAll(dir)
		fifo := dir + "/trace.fifo"
		if err := syscall.Mkfifo(fifo, 0600); err != nil {
			c.Inconclusive("mkfifo: %v", err)
			return
		}
		format := []string{"json", "pb"}[c.Intn(2)]
		type readRes struct {
			evs [][]byte
			err error
		}
		got := make(chan readRes, 1)
		go func() {
			var r readRes
			if format == "json" {
				r.evs, r.err = c19ReadJSON(fifo)
			} else {
				r.evs, r.err = c19ReadPB(fifo)
			}
			got <- r
		}()
		var tr c19Sink
		if format == "json" {
			tr, err = OpenJSONTracer(fifo, os.O_WRONLY, 0, slog.New(slog.NewTextHandler(io.Discard, nil)))
		} else {
			tr, err = OpenPBTracer(fifo, os.O_WRONLY, 0, slog.New(slog.NewTextHandler(io.Discard, nil)))
		}
		if err != nil {
			c.Inconclusive("open tracer: %v", err)
			return
		}
		K := c.Range(1, 4)
		N := c.Range(20, 600)
		total := K * N
		closeAfter := total
		if c.Chance(0.6) {
			closeAfter = c.Intn(total + 1)
		}
		yieldEvery := []int{0, 1, 7, 50}[c.Intn(4)]
		started := make([]atomic.Int64, K)
		done := make([]atomic.Int64, K)
		var all atomic.Int64
		var wg sync.WaitGroup
		for i := 0; i < K; i++ {
			wg.Add(1)
			go func(i int) {
				defer wg.Done()
				for j := 0; j < N; j++ {
					ts := int64(j)
					topic := fmt.Sprintf("t%d", j%3)
					started[i].Add(1)
					tr.Trace(&pb.TraceEvent{Type: pb.TraceEvent_JOIN.Enum(), PeerID: []byte{byte(i)}, Timestamp: &ts, Join: &pb.TraceEvent_Join{Topic: &topic}})
					done[i].Add(1)
					all.Add(1)
					if yieldEvery > 0 && j%yieldEvery == 0 {
						runtime.Gosched()
					}
				}
			}(i)
		}
		for all.Load() < int64(closeAfter) {
			runtime.Gosched()
		}
		lower := make([]int64, K)
		upper := make([]int64, K)
		for i := range lower {
			lower[i] = done[i].Load()
		}
		tr.Close()
		if c.Chance(0.3) {
			tr.Close() // a second Close is harmless
		}
		for i := range upper {
			upper[i] = started[i].Load()
		}
		wg.Wait()
		var res readRes
		select {
		case res = <-got:
		case <-time.After(60 * time.Second):
			c.Inconclusive("the writer never closed the file (watchdog)")
			return
		}
		cause := map[string]string{"format": format}
		if res.err != nil {
			cause["check"] = "file_unreadable"
			c.Violatef(cause, "%s trace unreadable after %d events: %v", format, len(res.evs), res.err)
			return
		}
		next := make([]int64, K)
		for k, b := range res.evs {
			var e pb.TraceEvent
			if err := e.Unmarshal(b); err != nil || len(e.GetPeerID()) != 1 || int(e.GetPeerID()[0]) >= K {
				cause["check"] = "file_event_differs"
				c.Violatef(cause, "%s trace entry %d is not an event that was traced: %v", format, k, e.String())
				return
			}
			i := int(e.GetPeerID()[0])
			if e.GetTimestamp() != next[i] || e.GetJoin().GetTopic() != fmt.Sprintf("t%d", next[i]%3) {
				cause["check"] = "file_event_order"
				c.Violatef(cause, "%s trace entry %d: producer %d's event %d (topic %q) where its event %d was due (K=%d N=%d closeAfter=%d)",
					format, k, i, e.GetTimestamp(), e.GetJoin().GetTopic(), next[i], K, N, closeAfter)
				return
			}
			next[i]++
		}
		for i := 0; i < K; i++ {
			if next[i] < lower[i] || next[i] > upper[i] {
				cause["check"] = "file_event_count"
				c.Violatef(cause, "%s trace holds %d events of producer %d; %d were traced before Close was called, %d had started when it returned (K=%d N=%d closeAfter=%d)",
					format, next[i], i, lower[i], upper[i], K, N, closeAfter)
				return
			}
		}
		if c.Idx < 2 {
			c.Sample(map[string]any{"format": format, "producers": K, "events_per_producer": N, "close_after": closeAfter, "file_events": len(res.evs)})
		}
		c.Sig(format, K, closeAfter == total, yieldEvery, N/100)
		c.Nontrivial(len(res.evs) > 10)
		c.Count("file_events", len(res.evs))
		c.Count("producers", K)
		if closeAfter < total {
			c.Count("closed_midway", 1)
		}
		c.State(format, K, len(res.evs) == total)
	})
}
