//go:build verif

package pubsub

// Virtual network (DESIGN.md 2.2): go-libp2p's in-memory mocknet inside a
// synctest bubble, hosts wrapped so that streams accept (and ignore) deadlines
// and pass through a fault/delay injection table; "puppet" peers speak the raw
// wire protocol and record everything they receive with virtual timestamps.

import (
	"context"
	"encoding/binary"
	"errors"
	"fmt"
	"io"
	"os"
	"sync"
	"sync/atomic"
	"testing/synctest"
	"time"

	pb "github.com/libp2p/go-libp2p-pubsub/pb"

	"github.com/libp2p/go-libp2p/core/connmgr"
	"github.com/libp2p/go-libp2p/core/crypto"
	"github.com/libp2p/go-libp2p/core/event"
	"github.com/libp2p/go-libp2p/core/host"
	"github.com/libp2p/go-libp2p/core/network"
	"github.com/libp2p/go-libp2p/core/peer"
	"github.com/libp2p/go-libp2p/core/protocol"
	bconnmgr "github.com/libp2p/go-libp2p/p2p/net/connmgr"
	mocknet "github.com/libp2p/go-libp2p/p2p/net/mock"
	ma "github.com/multiformats/go-multiaddr"
)

type vNet struct {
	c       *vCase
	mn      mocknet.Mocknet
	hosts   []*vHost
	puppets []*vPuppet
	cms     []*bconnmgr.BasicConnMgr
	nextIP  int
	names   map[peer.ID]string
	mu      sync.Mutex
	closed  bool
	down    map[[2]peer.ID]bool // pairs being / having been disconnected by the harness
	subs    []event.Subscription
	noWait  bool
	rsSize  int // network size estimate handed to NewRandomSub (0: ten)
}

func newVNet(c *vCase) *vNet {
	return &vNet{c: c, mn: mocknet.New(), names: map[peer.ID]string{}, down: map[[2]peer.ID]bool{}}
}

func vPair(a, b peer.ID) [2]peer.ID {
	if a > b {
		a, b = b, a
	}
	return [2]peer.ID{a, b}
}

func (n *vNet) isDown(a, b peer.ID) bool {
	n.mu.Lock()
	defer n.mu.Unlock()
	return n.down[vPair(a, b)]
}

type vRandReader struct{ c *vCase }

func (r vRandReader) Read(p []byte) (int, error) {
	for i := range p {
		p[i] = byte(r.c.R.UintN(256))
	}
	return len(p), nil
}

func (n *vNet) genKey(rsa bool) crypto.PrivKey {
	var k crypto.PrivKey
	var err error
	if rsa {
		k, _, err = crypto.GenerateRSAKeyPair(2048, vRandReader{n.c})
	} else {
		k, _, err = crypto.GenerateEd25519Key(vRandReader{n.c})
	}
	if err != nil {
		panic(err)
	}
	return k
}

func (n *vNet) Name(p peer.ID) string {
	n.mu.Lock()
	defer n.mu.Unlock()
	if s, ok := n.names[p]; ok {
		return s
	}
	if p == "" {
		return "<none>"
	}
	s := p.String()
	if len(s) > 6 {
		s = s[len(s)-6:]
	}
	return "?" + s
}

func (n *vNet) addRaw(name string, ip string) (host.Host, crypto.PrivKey) {
	k := n.genKey(false)
	if ip == "" {
		n.nextIP++
		ip = fmt.Sprintf("10.%d.%d.%d", (n.nextIP>>16)&255, (n.nextIP>>8)&255, n.nextIP&255)
	}
	var a ma.Multiaddr
	var err error
	if len(ip) > 0 && containsColon(ip) {
		a, err = ma.NewMultiaddr("/ip6/" + ip + "/tcp/4242")
	} else {
		a, err = ma.NewMultiaddr("/ip4/" + ip + "/tcp/4242")
	}
	if err != nil {
		panic(err)
	}
	h, err := n.mn.AddPeer(k, a)
	if err != nil {
		panic(err)
	}
	n.mu.Lock()
	n.names[h.ID()] = name
	n.mu.Unlock()
	// link with every existing peer so that anybody can dial anybody
	for _, o := range n.mn.Peers() {
		if o != h.ID() {
			if _, err := n.mn.LinkPeers(h.ID(), o); err != nil {
				panic(err)
			}
		}
	}
	return h, k
}

func containsColon(s string) bool {
	for i := 0; i < len(s); i++ {
		if s[i] == ':' {
			return true
		}
	}
	return false
}

// NewHost creates a wrapped host for a real PubSub node.
func (n *vNet) NewHost(name, ip string) *vHost {
	h, k := n.addRaw(name, ip)
	cm, err := bconnmgr.NewConnManager(1000, 2000, bconnmgr.WithGracePeriod(time.Hour))
	if err != nil {
		panic(err)
	}
	n.cms = append(n.cms, cm)
	vh := &vHost{Host: h, net: n, key: k, cm: cm, name: name}
	n.hosts = append(n.hosts, vh)
	if os.Getenv("VERIF_LIBLOG") != "" {
		if sub, err := h.EventBus().Subscribe([]interface{}{new(event.EvtPeerIdentificationCompleted), new(event.EvtPeerIdentificationFailed), new(event.EvtPeerConnectednessChanged)}); err == nil {
			n.subs = append(n.subs, sub)
			go func() {
				for ev := range sub.Out() {
					switch e := ev.(type) {
					case event.EvtPeerIdentificationCompleted:
						n.c.Logf("EVT[%s] identified %s protocols=%v", name, n.Name(e.Peer), e.Protocols)
					case event.EvtPeerIdentificationFailed:
						n.c.Logf("EVT[%s] identify FAILED %s: %v", name, n.Name(e.Peer), e.Reason)
					case event.EvtPeerConnectednessChanged:
						n.c.Logf("EVT[%s] connectedness %s -> %v", name, n.Name(e.Peer), e.Connectedness)
					}
				}
			}()
		}
	}
	return vh
}

// Connect makes a dial b (a's connection is outbound, b's inbound).
// Connect makes a dial b. It first waits for quiescence: go-libp2p's identify
// service refreshes its protocol snapshot asynchronously after a stream handler
// is registered; a peer dialled before that answers identify without its pubsub
// protocol and is never noticed by the other side (a go-libp2p start-up race
// that real deployments do not hit because handlers are registered long before
// the first connection).
func (n *vNet) Connect(a, b peer.ID) error {
	if vRealTime.Load() {
		time.Sleep(10 * time.Millisecond) // stream handlers registered just now must be known to identify
	} else if !n.noWait {
		synctest.Wait()
	}
	return n.ConnectNoWait(a, b)
}

// ConnectNoWait is for goroutines other than the case's main goroutine
// (synctest.Wait may only be called by one goroutine at a time).
func (n *vNet) ConnectNoWait(a, b peer.ID) error {
	n.mu.Lock()
	delete(n.down, vPair(a, b))
	n.mu.Unlock()
	_, err := n.mn.ConnectPeers(a, b)
	return err
}

// Disconnect closes the connection. mocknet tears a connection down in
// several asynchronous steps (streams are reset before the connection leaves
// the peer's table), which real transports do not expose; the pair is marked
// down first so that wrapped hosts see "not connected" from this instant on.
func (n *vNet) Disconnect(a, b peer.ID) error {
	n.mu.Lock()
	n.down[vPair(a, b)] = true
	n.mu.Unlock()
	return n.mn.DisconnectPeers(a, b)
}

func (n *vNet) Connected(a, b peer.ID) bool {
	return !n.isDown(a, b) && n.mn.Net(a).Connectedness(b) == network.Connected
}

// vNetwork hides mocknet's half-torn-down connections from the node.
type vNetwork struct {
	network.Network
	h *vHost
}

func (v *vNetwork) Connectedness(p peer.ID) network.Connectedness {
	if v.h.net.isDown(v.h.ID(), p) {
		return network.NotConnected
	}
	return v.Network.Connectedness(p)
}

func (v *vNetwork) ConnsToPeer(p peer.ID) []network.Conn {
	if v.h.net.isDown(v.h.ID(), p) {
		return nil
	}
	return v.Network.ConnsToPeer(p)
}

// Close tears everything down; afterwards no goroutine of the network may
// remain (the bubble would report it).
func (n *vNet) Close() {
	n.mu.Lock()
	if n.closed {
		n.mu.Unlock()
		return
	}
	n.closed = true
	n.mu.Unlock()
	for _, p := range n.puppets {
		p.shutdown()
	}
	for _, s := range n.subs {
		s.Close()
	}
	n.mn.Close()
	for _, cm := range n.cms {
		cm.Close()
	}
}

// ---------------------------------------------------------------- injection

type vOp int

const (
	vOpNewStream vOp = iota
	vOpWrite
	vOpRead
	vOpConnect
)

// vRule: applies to operation op towards/from peer (""=any) on host; the
// n-th matching call (from, count) gets delay and/or error.
type vRule struct {
	op    vOp
	peer  peer.ID
	from  int // first matching call index (0-based) it applies to
	count int // how many calls (0 = forever)
	delay time.Duration
	err   error
	reset bool // reset the stream instead of performing the op
	seen  int
}

type vInject struct {
	mu    sync.Mutex
	rules []*vRule
}

func (in *vInject) add(r *vRule) {
	in.mu.Lock()
	in.rules = append(in.rules, r)
	in.mu.Unlock()
}

func (in *vInject) clear() {
	in.mu.Lock()
	in.rules = nil
	in.mu.Unlock()
}

func (in *vInject) match(op vOp, p peer.ID) *vRule {
	in.mu.Lock()
	defer in.mu.Unlock()
	for _, r := range in.rules {
		if r.op != op || (r.peer != "" && r.peer != p) {
			continue
		}
		i := r.seen
		r.seen++
		if i >= r.from && (r.count == 0 || i < r.from+r.count) {
			return r
		}
	}
	return nil
}

// ---------------------------------------------------------------- vHost

type vHost struct {
	host.Host
	net  *vNet
	key  crypto.PrivKey
	cm   connmgr.ConnManager
	name string
	inj  vInject

	mu       sync.Mutex
	connects []peer.AddrInfo
}

func (h *vHost) ConnManager() connmgr.ConnManager { return h.cm }

func (h *vHost) Network() network.Network { return &vNetwork{Network: h.Host.Network(), h: h} }

func (h *vHost) Connect(ctx context.Context, pi peer.AddrInfo) error {
	h.mu.Lock()
	h.connects = append(h.connects, pi)
	h.mu.Unlock()
	if r := h.inj.match(vOpConnect, pi.ID); r != nil {
		if r.delay > 0 {
			select {
			case <-time.After(r.delay):
			case <-ctx.Done():
				return ctx.Err()
			}
		}
		if r.err != nil {
			return r.err
		}
	}
	return h.Host.Connect(ctx, pi)
}

func (h *vHost) Connects() []peer.AddrInfo {
	h.mu.Lock()
	defer h.mu.Unlock()
	return append([]peer.AddrInfo(nil), h.connects...)
}

func (h *vHost) NewStream(ctx context.Context, p peer.ID, pids ...protocol.ID) (network.Stream, error) {
	if h.net.isDown(h.ID(), p) {
		return nil, fmt.Errorf("not connected to %s", p)
	}
	if r := h.inj.match(vOpNewStream, p); r != nil {
		if r.delay > 0 {
			select {
			case <-time.After(r.delay):
			case <-ctx.Done():
				return nil, ctx.Err()
			}
		}
		if r.err != nil {
			return nil, r.err
		}
	}
	if h.net.isDown(h.ID(), p) {
		return nil, fmt.Errorf("not connected to %s", p)
	}
	s, err := h.Host.NewStream(ctx, p, pids...)
	if err != nil {
		h.net.c.Logf("%s: NewStream to %s failed: %v", h.name, h.net.Name(p), err)
		return nil, err
	}
	return &vStream{Stream: s, h: h, remote: p}, nil
}

func (h *vHost) SetStreamHandler(pid protocol.ID, handler network.StreamHandler) {
	h.Host.SetStreamHandler(pid, func(s network.Stream) {
		handler(&vStream{Stream: s, h: h, remote: s.Conn().RemotePeer()})
	})
}

func (h *vHost) SetStreamHandlerMatch(pid protocol.ID, m func(protocol.ID) bool, handler network.StreamHandler) {
	h.Host.SetStreamHandlerMatch(pid, m, func(s network.Stream) {
		handler(&vStream{Stream: s, h: h, remote: s.Conn().RemotePeer()})
	})
}

type vStream struct {
	network.Stream
	h      *vHost
	remote peer.ID
}

func (s *vStream) SetDeadline(time.Time) error      { return nil }
func (s *vStream) SetReadDeadline(time.Time) error  { return nil }
func (s *vStream) SetWriteDeadline(time.Time) error { return nil }

func (s *vStream) Write(b []byte) (int, error) {
	if r := s.h.inj.match(vOpWrite, s.remote); r != nil {
		if r.delay > 0 {
			time.Sleep(r.delay)
		}
		if r.reset {
			s.Stream.Reset()
			return 0, network.ErrReset
		}
		if r.err != nil {
			return 0, r.err
		}
	}
	return s.Stream.Write(b)
}

func (s *vStream) Read(b []byte) (int, error) {
	if r := s.h.inj.match(vOpRead, s.remote); r != nil {
		if r.delay > 0 {
			time.Sleep(r.delay)
		}
		if r.reset {
			s.Stream.Reset()
			return 0, network.ErrReset
		}
		if r.err != nil {
			return 0, r.err
		}
	}
	return s.Stream.Read(b)
}

// ---------------------------------------------------------------- puppets

type vWire struct {
	T      time.Time
	From   peer.ID // the node that sent it
	RPC    *pb.RPC
	Size   int
	Opened time.Time // when the stream it arrived on was accepted
	Idx    int       // index of the frame on its stream (0 = the hello packet), empty frames included
}

type vPuppet struct {
	net    *vNet
	h      host.Host
	key    crypto.PrivKey
	name   string
	protos []protocol.ID
	ctx    context.Context
	cancel context.CancelFunc

	mu          sync.Mutex
	recv        []vWire
	in          map[peer.ID][]network.Stream // streams opened by nodes towards us
	out         map[peer.ID]network.Stream   // our outbound stream per node
	stalled     bool
	unstall     chan struct{}
	onRPC       func(from peer.ID, rpc *pb.RPC)
	inOpen      int
	inEnded     int
	refuse      bool
	emptyFrames int
	forgotten   []network.Stream
}

// NewPuppet creates a raw peer that registers handlers for protos (its
// "negotiated version" is therefore an input).
func (n *vNet) NewPuppet(name, ip string, protos ...protocol.ID) *vPuppet {
	h, k := n.addRaw(name, ip)
	ctx, cancel := context.WithCancel(context.Background())
	p := &vPuppet{net: n, h: h, key: k, name: name, protos: protos, ctx: ctx, cancel: cancel,
		in: map[peer.ID][]network.Stream{}, out: map[peer.ID]network.Stream{}, unstall: make(chan struct{})}
	for _, proto := range protos {
		h.SetStreamHandler(proto, p.handle)
	}
	n.puppets = append(n.puppets, p)
	return p
}

func (p *vPuppet) ID() peer.ID { return p.h.ID() }

// Unhandle makes the puppet stop speaking its protocols: a stream the node opens to it from now on fails in
// protocol negotiation (its own streams stay as they are).
func (p *vPuppet) Unhandle() {
	for _, proto := range p.protos {
		p.h.RemoveStreamHandler(proto)
	}
}

// Rehandle undoes Unhandle.
func (p *vPuppet) Rehandle() {
	for _, proto := range p.protos {
		p.h.SetStreamHandler(proto, p.handle)
	}
}

func (p *vPuppet) shutdown() {
	p.cancel()
	p.mu.Lock()
	for _, s := range p.forgotten {
		s.Reset()
	}
	for _, s := range p.out {
		s.Reset()
	}
	for _, l := range p.in {
		for _, s := range l {
			s.Reset()
		}
	}
	if p.stalled {
		p.stalled = false
		close(p.unstall)
	}
	p.mu.Unlock()
}

// Stall makes the puppet stop reading (back-pressure on the node's writer).
func (p *vPuppet) Stall() {
	p.mu.Lock()
	if !p.stalled {
		p.stalled = true
		p.unstall = make(chan struct{})
	}
	p.mu.Unlock()
}

func (p *vPuppet) Unstall() {
	p.mu.Lock()
	if p.stalled {
		p.stalled = false
		close(p.unstall)
	}
	p.mu.Unlock()
}

func (p *vPuppet) handle(s network.Stream) {
	from := s.Conn().RemotePeer()
	opened := time.Now()
	p.mu.Lock()
	if p.refuse {
		p.mu.Unlock()
		s.Reset()
		return
	}
	p.in[from] = append(p.in[from], s)
	p.inOpen++
	p.mu.Unlock()
	defer func() {
		p.mu.Lock()
		p.inEnded++
		p.mu.Unlock()
	}()
	idx := -1
	for {
		p.mu.Lock()
		st, ch := p.stalled, p.unstall
		p.mu.Unlock()
		if st {
			select {
			case <-ch:
			case <-p.ctx.Done():
				s.Reset()
				return
			}
			continue
		}
		frame, err := vReadFrame(s, 8<<20)
		if err != nil {
			if err == io.EOF {
				s.Close()
			} else {
				s.Reset()
			}
			return
		}
		idx++
		if len(frame) == 0 {
			p.mu.Lock()
			p.emptyFrames++
			p.mu.Unlock()
			continue
		}
		rpc := new(pb.RPC)
		if err := rpc.Unmarshal(frame); err != nil {
			p.net.c.Logf("%s: undecodable frame from %s: %v", p.name, p.net.Name(from), err)
			continue
		}
		p.mu.Lock()
		p.recv = append(p.recv, vWire{T: time.Now(), From: from, RPC: rpc, Size: len(frame), Opened: opened, Idx: idx})
		cb := p.onRPC
		p.mu.Unlock()
		if cb != nil {
			cb(from, rpc)
		}
	}
}

func vReadFrame(r io.Reader, max int) ([]byte, error) {
	var l uint64
	var shift uint
	var one [1]byte
	for i := 0; ; i++ {
		if _, err := io.ReadFull(r, one[:]); err != nil {
			if i > 0 && err == io.EOF {
				return nil, io.ErrUnexpectedEOF
			}
			return nil, err
		}
		b := one[0]
		l |= uint64(b&0x7f) << shift
		if b < 0x80 {
			break
		}
		shift += 7
		if shift > 63 {
			return nil, errors.New("varint overflow")
		}
	}
	if l > uint64(max) {
		return nil, fmt.Errorf("frame too large: %d", l)
	}
	buf := make([]byte, l)
	if _, err := io.ReadFull(r, buf); err != nil {
		if err == io.EOF {
			err = io.ErrUnexpectedEOF
		}
		return nil, err
	}
	return buf, nil
}

func vFrame(b []byte) []byte {
	out := make([]byte, binary.MaxVarintLen64+len(b))
	n := binary.PutUvarint(out, uint64(len(b)))
	copy(out[n:], b)
	return out[:n+len(b)]
}

// Open opens (or returns) the puppet's outbound stream to node.
func (p *vPuppet) Open(node peer.ID) (network.Stream, error) {
	p.mu.Lock()
	s := p.out[node]
	p.mu.Unlock()
	if s != nil {
		return s, nil
	}
	s, err := p.h.NewStream(p.ctx, node, p.protos...)
	if err != nil {
		return nil, err
	}
	p.mu.Lock()
	p.out[node] = s
	p.mu.Unlock()
	return s, nil
}

// OpenNew always opens a fresh outbound stream (duplicate inbound stream at the node).
func (p *vPuppet) OpenNew(node peer.ID) (network.Stream, error) {
	s, err := p.h.NewStream(p.ctx, node, p.protos...)
	if err != nil {
		return nil, err
	}
	p.mu.Lock()
	p.out[node] = s
	p.mu.Unlock()
	return s, nil
}

func (p *vPuppet) Send(node peer.ID, rpc *pb.RPC) error {
	b, err := rpc.Marshal()
	if err != nil {
		return err
	}
	return p.SendRaw(node, vFrame(b))
}

func (p *vPuppet) SendRaw(node peer.ID, b []byte) error {
	s, err := p.Open(node)
	if err != nil {
		return err
	}
	_, err = s.Write(b)
	return err
}

var errVWriteStalled = errors.New("write stalled: nobody reads the stream")

// SendRawTimeout writes with a virtual-time bound: if the node neither reads
// nor resets the stream the write would block forever (mocknet streams are
// unbuffered pipes); the stream is then reset from the puppet's side.
func (p *vPuppet) SendRawTimeout(node peer.ID, b []byte, d time.Duration) error {
	s, err := p.Open(node)
	if err != nil {
		return err
	}
	done := make(chan error, 1)
	go func() { _, err := s.Write(b); done <- err }()
	select {
	case err := <-done:
		return err
	case <-time.After(d):
		s.Reset()
		p.mu.Lock()
		if p.out[node] == s {
			delete(p.out, node)
		}
		p.mu.Unlock()
		<-done
		return errVWriteStalled
	}
}

// CloseOut closes (or resets) the puppet's outbound stream = the node's inbound stream.
func (p *vPuppet) CloseOut(node peer.ID, reset bool) {
	p.mu.Lock()
	s := p.out[node]
	delete(p.out, node)
	p.mu.Unlock()
	if s == nil {
		return
	}
	if reset {
		s.Reset()
	} else {
		s.Close()
	}
}

// CloseIn closes (or resets) the streams the node opened towards the puppet =
// the node's outbound stream.
func (p *vPuppet) CloseIn(node peer.ID, reset bool) {
	p.mu.Lock()
	ss := p.in[node]
	delete(p.in, node)
	p.mu.Unlock()
	for _, s := range ss {
		if reset {
			s.Reset()
		} else {
			s.Close()
		}
	}
}

// ForgetStreams drops the puppet's references to its streams (after a disconnect).
func (p *vPuppet) ForgetStreams() {
	p.mu.Lock()
	// (kept aside: a stream that was being opened while its connection went down is not always torn down by the
	// in-memory network; shutdown resets them so that nobody is left reading from them)
	for _, s := range p.out {
		p.forgotten = append(p.forgotten, s)
	}
	for _, l := range p.in {
		p.forgotten = append(p.forgotten, l...)
	}
	p.out = map[peer.ID]network.Stream{}
	p.in = map[peer.ID][]network.Stream{}
	p.mu.Unlock()
}

func (p *vPuppet) Refuse(b bool) {
	p.mu.Lock()
	p.refuse = b
	p.mu.Unlock()
}

// Wire returns a copy of everything received so far.
func (p *vPuppet) Wire() []vWire {
	p.mu.Lock()
	defer p.mu.Unlock()
	return append([]vWire(nil), p.recv...)
}

func (p *vPuppet) WireLen() int {
	p.mu.Lock()
	defer p.mu.Unlock()
	return len(p.recv)
}

func (p *vPuppet) WireSince(i int) []vWire {
	p.mu.Lock()
	defer p.mu.Unlock()
	if i > len(p.recv) {
		i = len(p.recv)
	}
	return append([]vWire(nil), p.recv[i:]...)
}

func (p *vPuppet) HasInbound(node peer.ID) bool {
	p.mu.Lock()
	defer p.mu.Unlock()
	return len(p.in[node]) > 0
}

// ---------------------------------------------------------------- helpers

// vRealTime is set by the (few) network monitors that run outside a synctest
// bubble: settling is then a plain real-time pause.
var vRealTime atomic.Bool

func vSettle(d time.Duration) {
	if vRealTime.Load() {
		time.Sleep(d + 3*time.Millisecond)
		return
	}
	if d > 0 {
		time.Sleep(d)
	}
	synctest.Wait()
}

func vSubRPC(sub bool, topics ...string) *pb.RPC {
	r := &pb.RPC{}
	for _, t := range topics {
		t := t
		s := sub
		r.Subscriptions = append(r.Subscriptions, &pb.RPC_SubOpts{Topicid: &t, Subscribe: &s})
	}
	return r
}

func vGraftRPC(topics ...string) *pb.RPC {
	c := &pb.ControlMessage{}
	for _, t := range topics {
		t := t
		c.Graft = append(c.Graft, &pb.ControlGraft{TopicID: &t})
	}
	return &pb.RPC{Control: c}
}

func vPruneRPC(backoff uint64, topics ...string) *pb.RPC {
	c := &pb.ControlMessage{}
	for _, t := range topics {
		t := t
		pr := &pb.ControlPrune{TopicID: &t}
		if backoff > 0 {
			b := backoff
			pr.Backoff = &b
		}
		c.Prune = append(c.Prune, pr)
	}
	return &pb.RPC{Control: c}
}

func vSeqno(n uint64) []byte {
	b := make([]byte, 8)
	binary.BigEndian.PutUint64(b, n)
	return b
}

// vSignedMsg builds a message authored and signed by key (harness's own
// implementation of the signing rule: marshal without signature/key, prefix).
func vSignedMsg(key crypto.PrivKey, topic string, seqno []byte, data []byte) *pb.Message {
	id, err := peer.IDFromPrivateKey(key)
	if err != nil {
		panic(err)
	}
	m := &pb.Message{From: []byte(id), Data: data, Seqno: seqno, Topic: &topic}
	vSign(key, m)
	return m
}

func vSign(key crypto.PrivKey, m *pb.Message) {
	m.Signature = nil
	m.Key = nil
	b, err := m.Marshal()
	if err != nil {
		panic(err)
	}
	sig, err := key.Sign(append([]byte("libp2p-pubsub:"), b...))
	if err != nil {
		panic(err)
	}
	m.Signature = sig
	id := peer.ID(m.From)
	if pk, _ := id.ExtractPublicKey(); pk == nil {
		kb, err := crypto.MarshalPublicKey(key.GetPublic())
		if err != nil {
			panic(err)
		}
		m.Key = kb
	}
}

func vMsgRPC(msgs ...*pb.Message) *pb.RPC { return &pb.RPC{Publish: msgs} }

var vAllGossipProtos = []protocol.ID{GossipSubID_v13, GossipSubID_v12, GossipSubID_v11, GossipSubID_v10}
