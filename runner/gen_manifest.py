#!/usr/bin/env python3
"""Regenerates /verif/MANIFEST.json from runner/props.py (single source of truth)."""
import json, os, subprocess, sys
VERIF = os.path.dirname(os.path.dirname(os.path.abspath(__file__)))
sys.path.insert(0, os.path.join(VERIF, "runner"))
from props import PROPS, NOT_APPLICABLE

props = [json.loads(l) for l in open(os.path.join(VERIF, "properties.jsonl"))]
hooks = subprocess.run(["git", "-C", "/repo", "log", "--format=%H %s"], capture_output=True, text=True).stdout.split("\n")
hook_commits = [l.split()[0] for l in hooks if l and l.split(" ", 1)[1].startswith("verif hook")]
checks = []
na = []
for p in props:
    pid = p["id"]
    cfg = PROPS.get(pid)
    if not cfg or not cfg.get("claimed", True):
        na.append({"property_id": pid, "reason": NOT_APPLICABLE.get(pid, "monitor not built yet (implementation in progress, see DESIGN.md section 10)")})
        continue
    checks.append({
        "property_id": pid,
        "quick_cmd": "./bin/check %s quick" % pid,
        "thorough_cmd": "./bin/check %s thorough" % pid,
        "evidence_file": "evidence/%s.json" % pid,
        "replay_cmd_template": "./bin/check %s --replay {path}" % pid,
        "engine": "vmon",
        "level_claimed": {"category": cfg["level"], "text": cfg["level_text"], "design_ref": cfg.get("design_ref", "DESIGN.md section 4, " + pid)},
        "level_note": cfg["level_note"],
        "technique": cfg["technique"],
    })
m = {
    "version": 1,
    "setup_cmd": "./bin/check --setup",
    "hooks": {"guard": "verif", "enable": "go test -tags verif (harness files are injected with -overlay, never committed to /repo)",
              "baseline_off_cmd": "cd /repo && go test -mod=mod -json -vet=off -count=1 -timeout 25m ./...",
              "source_commits": hook_commits, "add_only": True},
    "engines": [{"name": "vmon", "path": "runner/check.py", "serves_properties": [c["property_id"] for c in checks],
                 "kind_free_text": "runtime monitoring: python3 runner builds the in-package Go harness (harness/, build tag verif, go test -overlay) from /repo's working tree, runs PRNG/exhaustive case lists in child processes (virtual time via testing/synctest on a mocknet-based virtual network with raw-wire puppet peers; real-time stress under the Go race detector; porcupine for recorded histories), classifies violations by cause record against KNOWN_FINDINGS.json and writes evidence/<id>.json"}],
    "checks": checks,
    "notes": "Technique family: runtime monitoring and sanitizers. Exit 0 = held on everything explored (known findings listed as KNOWN-FINDING lines), 1 = VIOLATION not listed in KNOWN_FINDINGS.json, 2 = inconclusive/broken build (never on the unchanged tree). VERIF_SEED and VERIF_TIER are honoured. See DESIGN.md.",
    "not_applicable": na,
}
json.dump(m, open(os.path.join(VERIF, "MANIFEST.json"), "w"), indent=1)
print("checks:", [c["property_id"] for c in checks], "not claimed:", [n["property_id"] for n in na])
