#!/usr/bin/env python3
"""mkmut.py <name> <file> <old> <new>  -> writes /verif/mutants/<name>.diff (repo left clean)."""
import subprocess, sys
name, f, old, new = sys.argv[1:5]
p = "/repo/" + f
s = open(p).read()
if s.count(old) != 1:
    print("old text occurs %d times" % s.count(old)); sys.exit(1)
open(p, "w").write(s.replace(old, new))
d = subprocess.run(["git", "-C", "/repo", "diff"], capture_output=True, text=True).stdout
subprocess.run(["git", "-C", "/repo", "checkout", "--", f])
open("/verif/mutants/%s.diff" % name, "w").write(d)
print("ok", name)
