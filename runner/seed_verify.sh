#!/bin/bash
# seed_verify.sh <seed-dir> [nosuite]
# Confirms a seeded change produced by a sub-agent, in a scratch worktree of /repo under /tmp
# (removed afterwards): the patch applies and compiles, the demonstration fails with it and passes
# without it, and the repository's own suite still passes with it. Prints one summary line.
export GOFLAGS=-mod=mod GOPROXY=off GOSUMDB=off GOTOOLCHAIN=local
GO=/root/go/pkg/mod/golang.org/toolchain@v0.0.1-go1.25.0.linux-amd64/bin/go
d=$(readlink -f "$1"); nosuite=$2
wt=/tmp/wt-verify-$$
git -C /repo worktree add -q --detach $wt HEAD || exit 2
trap 'git -C /repo worktree remove --force $wt >/dev/null 2>&1' EXIT
dir=$(python3 -c "import json;print(json.load(open('$d/meta.json'))['demo'].get('dir','.') or '.')")
tst=$(python3 -c "import json;print(json.load(open('$d/meta.json'))['demo']['test'])")
cp "$d/demo_test.go" "$wt/$dir/zz_seed_demo_test.go"
cd $wt/$dir
without=fail; with=pass; applies=no; builds=no; suite=skipped
if $GO test -vet=off -count=1 -timeout 10m -run "^${tst}\$" . > $d/demo_without.log 2>&1; then without=pass; fi
if git -C $wt apply "$d/patch.diff" 2>/dev/null; then applies=yes; fi
if (cd $wt && $GO build ./... >/dev/null 2>&1); then builds=yes; fi
if ! $GO test -vet=off -count=1 -timeout 10m -run "^${tst}\$" . > $d/demo_with.log 2>&1; then with=fail; fi
if [ -z "$nosuite" ]; then
  rm -f "$wt/$dir/zz_seed_demo_test.go"
  # the three tracer tests write to fixed paths under /tmp and collide with (or hang under) suite runs going on elsewhere
  # on the machine: they are run separately, alone, up to three times
  TR='^(TestJSONTracer|TestPBTracer|TestRemoteTracer)$'
  # a few of the repository's tests can hang under load (a timeout, not a failure): one more attempt then
  for att in 1 2; do
    (cd $wt && $GO test -json -vet=off -count=1 -timeout 15m -skip "$TR" ./... > $d/suite_with.json 2>&1)
    grep -q "panic: test timed out" $d/suite_with.json || break
  done
  for k in 1 2 3; do
    (cd $wt && timeout 600 $GO test -json -vet=off -count=1 -timeout 8m -run "$TR" . > $d/suite_tracers.json 2>&1) && break
  done
  cat $d/suite_tracers.json >> $d/suite_with.json
  suite=$(python3 - "$d/suite_with.json" <<'PY'
import json,sys
p=f=0; fails=[]
for l in open(sys.argv[1]):
    try: e=json.loads(l)
    except Exception: continue
    if e.get('Test') and e.get('Action')=='pass': p+=1
    if e.get('Test') and e.get('Action')=='fail': f+=1; fails.append(e['Test'])
    if not e.get('Test') and e.get('Action')=='fail': f+=1; fails.append('PACKAGE:'+e.get('Package','?').split('/')[-1])
print('pass=%d,fail=%d%s'%(p,f,(':'+'|'.join(fails[:4])) if fails else ''))
PY
)
fi
echo "$(basename $(dirname $d))/$(basename $d) applies=$applies builds=$builds demo_without=$without demo_with=$with suite=$suite"
