#!/bin/bash
# seeded.sh [apply]  : runs every kept seeded change against the quick tier of its property.
# Default: through the build overlay (--mutant, /repo untouched). With "apply": literally
# `git -C /repo apply`, run, `git -C /repo checkout -- .` (only when nothing else uses /repo).
cd /verif
mode=$1
out=seeded/RESULTS.tsv; tmp=$(mktemp)
for d in seeded/C*/; do
  name=$(basename $d); id=${name%%-*}
  s=$(date +%s)
  if [ "$mode" = apply ]; then
    git -C /repo apply /verif/$d/patch.diff || { echo "$name does not apply"; continue; }
    o=$(./bin/check $id quick 2>&1); rc=$?
    git -C /repo checkout -- .
  else
    o=$(./bin/check $id quick --mutant $d/patch.diff 2>&1); rc=$?
  fi
  v=$(echo "$o" | sed -n 's/.* violations=\([0-9]*\) .*/\1/p' | tail -1)
  cause=$(echo "$o" | grep -m1 "cause=" | sed 's/^ *cause=//' | cut -c1-160)
  printf "%s\t%s\t%s\t%s\t%s\t%s\n" "$name" "${mode:-overlay}" "$rc" "${v:-0}" "$cause" "$(( $(date +%s)-s ))" >> $tmp
  echo "$name rc=$rc violations=${v:-0} $cause"
done
{ printf "seeded_change\tmode\texit\tviolations\tfirst_cause\tseconds\n"; sort $tmp; } > $out; rm -f $tmp
