#!/bin/bash
# seeded.sh [overlay|apply] [glob] : runs every kept seeded change (or those matching glob) against the quick
# tier of its property and merges the rows into seeded/RESULTS.tsv.
# overlay (default): through the build overlay (--mutant, /repo untouched). apply: literally
# `git -C /repo apply`, run, `git -C /repo checkout -- .` (only when nothing else uses /repo).
cd /verif
mode=${1:-overlay}; pat=${2:-C*}
out=seeded/RESULTS.tsv; tmp=$(mktemp)
[ -f $out ] && grep -v "^seeded_change" $out > $tmp.old || : > $tmp.old
for d in seeded/$pat/; do [ -d "$d" ] || continue
  name=$(basename $d); id=${name%%-*}
  s=$(date +%s)
  if [ "$mode" = apply ]; then
    git -C /repo apply /verif/$d/patch.diff || { echo "$name does not apply"; continue; }
    o=$(./bin/check $id quick 2>&1); rc=$?
    git -C /repo checkout -- .
  else
    o=$(./bin/check $id quick --mutant $d/patch.diff 2>&1); rc=$?
  fi
  v=$(echo "$o" | sed -n 's/.* violations=\([0-9]*\) .*/\1/p' | tail -1)
  cause=$(echo "$o" | grep -m1 "cause=" | sed 's/^ *cause=//' | cut -c1-160)
  grep -v "^$name	$mode	" $tmp.old > $tmp.new; mv $tmp.new $tmp.old
  printf "%s\t%s\t%s\t%s\t%s\t%s\n" "$name" "$mode" "$rc" "${v:-0}" "$cause" "$(( $(date +%s)-s ))" >> $tmp.old
  echo "$name rc=$rc violations=${v:-0} $cause"
done
{ printf "seeded_change\tmode\texit\tviolations\tfirst_cause\tseconds\n"; sort $tmp.old; } > $out; rm -f $tmp $tmp.old
