"""Per-property monitor configuration (which test functions decide which property)."""

PROPS = {}

PROPS["SMOKE"] = {
    "level": "exploration",
    "rule": "smoke test of the virtual network",
    "monitors": [
        {"name": "smoke", "test": "TestVerifSmoke", "shards": 4},
        {"name": "smoke.race", "test": "TestVerifSmoke", "shards": 4, "race": True},
    ],
}

PROPS["C11"] = {
    "level": "exploration",
    "rule": "PRNG-generated RPCs carrying every field kind (published messages with all six fields and unknown fields, "
            "subscriptions with partial flags, GRAFT, PRUNE with PX+backoff, IHAVE, IWANT, IDONTWANT, extensions, partial, "
            "testExtension; element sizes 0..>limit) split at every limit 100..160 plus size-1,size,size+1 and PRNG limits; "
            "plus all RPCs of <=3 kinds x 3 element sizes x count 1..2 at 12 limits (C11.small, exhaustive); distinct = "
            "(set of field kinds, size class, whether any split produced >1 fragment); non-trivial = >=2 kinds and at least "
            "one multi-fragment split",
    "monitors": [
        {"name": "C11.split", "test": "TestVerifC11Split", "shards": 16, "bubble": False},
        {"name": "C11.small", "test": "TestVerifC11Small", "shards": 16, "bubble": False},
        {"name": "C11.send", "test": "TestVerifC11Send", "shards": 16},
    ],
}
