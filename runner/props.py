"""Per-property monitor configuration (which test functions decide which property)."""

PROPS = {}

PROPS["SMOKE"] = {
    "level": "exploration",
    "rule": "smoke test of the virtual network",
    "monitors": [
        {"name": "smoke", "test": "TestVerifSmoke", "shards": 4},
        {"name": "smoke.race", "test": "TestVerifSmoke", "shards": 4, "race": True},
    ],
}
