"""Per-property monitor configuration (which test functions decide which property)."""

PROPS = {}
NOT_APPLICABLE = {}

PROPS["SMOKE"] = {
    "level": "exploration",
    "rule": "smoke test of the virtual network",
    "monitors": [
        {"name": "smoke", "test": "TestVerifSmoke", "shards": 4},
        {"name": "smoke.race", "test": "TestVerifSmoke", "shards": 4, "race": True},
    ],
}

PROPS["C11"] = {
    "level": "exploration",
    "level_text": "held on every generated RPC x limit pair (tens of thousands of splits per quick run, millions in thorough) and on the "
                  "complete small scope of <=3 field kinds; the oracle is a canonical content multiset, so any lost, duplicated, "
                  "reordered, invented or oversized element in what was explored is reported; end to end the wire of a puppet peer is compared "
                  "with what sendRPC was given. Not a proof for all RPCs.",
    "level_note": "trusted: gogo-protobuf Size/Marshal, the harness's notion of an indivisible element; limits start at 100 bytes (the suite's own minimum)",
    "technique": "runtime monitoring: differential oracle (canonical content multiset) over PRNG + small-scope exhaustive inputs; wire capture at puppet peers",
    "rule": "PRNG-generated RPCs carrying every field kind (published messages with all six fields and unknown fields, "
            "subscriptions with partial flags, GRAFT, PRUNE with PX+backoff, IHAVE, IWANT, IDONTWANT, extensions, partial, "
            "testExtension; element sizes 0..>limit) split at every limit 100..160 plus size-1,size,size+1 and PRNG limits; "
            "plus all RPCs of <=3 kinds x 3 element sizes x count 1..2 at 12 limits (C11.small, exhaustive); distinct = "
            "(set of field kinds, size class, whether any split produced >1 fragment); non-trivial = >=2 kinds and at least "
            "one multi-fragment split",
    "monitors": [
        {"name": "C11.split", "test": "TestVerifC11Split", "shards": 16, "bubble": False},
        {"name": "C11.small", "test": "TestVerifC11Small", "shards": 16, "bubble": False},
        {"name": "C11.send", "test": "TestVerifC11Send", "shards": 16},
    ],
}

PROPS["C15"] = {
    "level": "exploration",
    "level_text": "sequential behaviour is compared with a reference model exhaustively up to the stated length; concurrent behaviour is "
                  "checked on thousands of recorded real-time histories with a linearizability checker and on scripted blocking scenarios "
                  "at logical quiescence; the one interleaving the property singles out (cancel between check and wait) is forced through the hook. "
                  "Held on the executions observed, race detector silent on them.",
    "level_note": "trusted: porcupine v1.3.0, testing/synctest quiescence detection, the 30-line reference model; the Go scheduler decides which real-time interleavings occur",
    "technique": "runtime monitoring: reference-model comparison (exhaustive short sequences), porcupine linearizability check of recorded histories, forced schedule point (verif hook), Go race detector",
    "rule": "C15.seq: every sequence of length <=6 (quick) / <=8 (thorough) over {push, urgent push, pop, pop with cancelled "
            "context, close, len probe} for capacities 1..3 against a 30-line reference model (exhaustive); C15.block: PRNG "
            "scripts of blocking/non-blocking pushes, pops, cancels and close inside a synctest bubble, checked at every "
            "quiescent point (nobody blocked who could proceed, nobody blocked after close/cancel); C15.stress: real-time "
            "concurrent histories (2..5 pushers, 1..4 poppers with PRNG cancellation, a closer; <=45 ops) checked with "
            "porcupine plus conservation / per-producer FIFO / capacity sampling, also under the race detector; C15.forced: the "
            "verif hook forces the cancellation between Pop's context check and Cond.Wait. distinct = (capacity, operation "
            "shape); non-trivial = >=2 concurrent waiters / >=8 ops with a blocking push / hook reached",
    "exhaustive": False,
    "monitors": [
        {"name": "C15.seq", "test": "TestVerifC15Seq", "shards": 16, "bubble": False},
        {"name": "C15.block", "test": "TestVerifC15Block", "shards": 16},
        {"name": "C15.forced", "test": "TestVerifC15Forced", "shards": 8, "min_counts": {"hook_reached": 1}},
        {"name": "C15.stress", "test": "TestVerifC15Stress", "shards": 4, "gomaxprocs": 8, "bubble": False},
        {"name": "C15.stress.race", "test": "TestVerifC15Stress", "shards": 4, "gomaxprocs": 8, "bubble": False, "race": True,
         "env": {"VERIF_LIMIT_FRAC": "0.2"}},
    ],
}

PROPS["C20"] = {
    "claimed": False,
    "level": "exploration",
    "level_text": "TODO",
    "level_note": "TODO",
    "technique": "TODO",
    "rule": "TODO",
    "monitors": [
        {"name": "C20.val", "test": "TestVerifC20Val", "shards": 4, "gomaxprocs": 8, "bubble": False},
        {"name": "C20.val.race", "test": "TestVerifC20Val", "shards": 4, "gomaxprocs": 8, "bubble": False, "race": True},
        {"name": "C20.len", "test": "TestVerifC20Len", "shards": 4, "bubble": False},
        {"name": "C20.node", "test": "TestVerifC20Node", "shards": 16},
    ],
}

PROPS["C02"] = {
    "claimed": False,
    "level": "exploration",
    "level_text": "TODO",
    "level_note": "TODO",
    "technique": "TODO",
    "rule": "TODO",
    "monitors": [
        {"name": "C02.node", "test": "TestVerifC02Node", "shards": 16},
        {"name": "C02.cache.small", "test": "TestVerifC02CacheSmall", "pkg": "timecache", "shards": 16},
        {"name": "C02.cache.rand", "test": "TestVerifC02CacheRand", "pkg": "timecache", "shards": 16},
        {"name": "C02.cache.stress", "test": "TestVerifC02CacheStress", "pkg": "timecache", "shards": 4, "gomaxprocs": 8, "bubble": False, "race": True},
    ],
}

PROPS["C17"] = {
    "claimed": False,
    "level": "exploration",
    "level_text": "TODO",
    "level_note": "TODO",
    "technique": "TODO",
    "rule": "TODO",
    "monitors": [
        {"name": "C17.cache.small", "test": "TestVerifC17CacheSmall", "shards": 16, "bubble": False},
        {"name": "C17.cache.rand", "test": "TestVerifC17CacheRand", "shards": 16, "bubble": False},
        {"name": "C17.gossip", "test": "TestVerifC17Gossip", "shards": 16},
    ],
}

PROPS["C10"] = {
    "claimed": False,
    "level": "exploration",
    "level_text": "TODO",
    "level_note": "TODO",
    "technique": "TODO",
    "rule": "TODO",
    "monitors": [
        {"name": "C10.score", "test": "TestVerifC10Score", "shards": 16},
        {"name": "C10.partial", "test": "TestVerifC10Partial", "shards": 4},
    ],
}

PROPS["C06"] = {
    "claimed": False,
    "level": "exploration",
    "level_text": "TODO",
    "level_note": "TODO",
    "technique": "TODO",
    "rule": "TODO",
    "monitors": [
        {"name": "C06.route", "test": "TestVerifC06Route", "shards": 16},
    ],
}

PROPS["C07"] = {
    "claimed": False,
    "level": "exploration",
    "level_text": "TODO",
    "level_note": "TODO",
    "technique": "TODO",
    "rule": "TODO",
    "monitors": [
        {"name": "C07.mesh", "test": "TestVerifC07Mesh", "shards": 16},
    ],
}

PROPS["C08"] = {
    "claimed": False,
    "level": "exploration",
    "level_text": "TODO",
    "level_note": "TODO",
    "technique": "TODO",
    "rule": "TODO",
    "monitors": [
        {"name": "C08.backoff", "test": "TestVerifC08Backoff", "shards": 16},
    ],
}

PROPS["C09"] = {
    "claimed": False,
    "level": "exploration",
    "level_text": "TODO",
    "level_note": "TODO",
    "technique": "TODO",
    "rule": "TODO",
    "monitors": [
        {"name": "C09.thresholds", "test": "TestVerifC09Thresholds", "shards": 16},
        {"name": "C09.gater", "test": "TestVerifC09Gater", "shards": 8},
    ],
}

PROPS["C16"] = {
    "claimed": False,
    "level": "exploration",
    "level_text": "TODO",
    "level_note": "TODO",
    "technique": "TODO",
    "rule": "TODO",
    "monitors": [
        {"name": "C16.blacklist", "test": "TestVerifC16Blacklist", "shards": 16},
    ],
}

PROPS["C03"] = {
    "claimed": False,
    "level": "exploration",
    "level_text": "TODO",
    "level_note": "TODO",
    "technique": "TODO",
    "rule": "TODO",
    "monitors": [
        {"name": "C03.sign", "test": "TestVerifC03Sign", "shards": 16},
    ],
}

PROPS["C04"] = {
    "claimed": False,
    "level": "exploration",
    "level_text": "TODO",
    "level_note": "TODO",
    "technique": "TODO",
    "rule": "TODO",
    "monitors": [
        {"name": "C04.verdicts", "test": "TestVerifC04Verdicts", "shards": 16},
    ],
}

PROPS["C12"] = {
    "claimed": False,
    "level": "exploration",
    "level_text": "TODO",
    "level_note": "TODO",
    "technique": "TODO",
    "rule": "TODO",
    "monitors": [
        {"name": "C12.hostile", "test": "TestVerifC12Hostile", "shards": 16},
    ],
}

PROPS["C13"] = {
    "claimed": False,
    "level": "fault_enumeration",
    "level_text": "TODO",
    "level_note": "TODO",
    "technique": "TODO",
    "rule": "TODO",
    "monitors": [
        {"name": "C13.leaks", "test": "TestVerifC13Leaks", "shards": 16},
    ],
}
