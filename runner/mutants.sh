#!/bin/bash
# Self-test: runs every mutant under /verif/mutants (named <PROPERTY>-<what>.diff) against the quick
# tier of its property, through the build overlay (/repo is never edited), and writes
# /verif/mutants/RESULTS.tsv: mutant, exit code, violations, first cause, seconds.
# usage: runner/mutants.sh [glob]   (default: all)
cd /verif
pat=${1:-*}
out=mutants/RESULTS.tsv
tmp=$(mktemp)
[ -f $out ] && grep -v "^mutant" $out > $tmp.old || : > $tmp.old
for m in mutants/$pat.diff; do [ -f "$m" ] || continue
  name=$(basename $m .diff)
  id=${name%%-*}
  s=$(date +%s)
  o=$(./bin/check $id quick --mutant $m 2>&1); rc=$?
  v=$(echo "$o" | sed -n 's/.* violations=\([0-9]*\) .*/\1/p' | tail -1)
  cause=$(echo "$o" | grep -m1 "cause=" | sed 's/^ *cause=//' | cut -c1-160)
  [ $rc -eq 2 ] && cause=$(echo "$o" | grep -m1 "BROKEN\|INCONCLUSIVE" | cut -c1-160)
  grep -v "^$name	" $tmp.old > $tmp.new; mv $tmp.new $tmp.old
  printf "%s\t%s\t%s\t%s\t%s\n" "$name" "$rc" "${v:-0}" "$cause" "$(( $(date +%s)-s ))" >> $tmp.old
  echo "$name rc=$rc violations=${v:-0} $cause"
done
{ printf "mutant\texit\tviolations\tfirst_cause\tseconds\n"; sort $tmp.old; } > $out
rm -f $tmp $tmp.old
