#!/bin/bash
# Runs the repository's own suite with the verif guard OFF and prints pass/fail counts.
export GOFLAGS=-mod=mod GOPROXY=off GOSUMDB=off GOTOOLCHAIN=local
GO=/root/go/pkg/mod/golang.org/toolchain@v0.0.1-go1.25.0.linux-amd64/bin/go
[ -x "$GO" ] || { GO=go; unset GOSUMDB; export GOTOOLCHAIN=auto; }
OUT=${1:-/tmp/repo_suite.json}
cd /repo && $GO test -json -vet=off -count=1 -timeout 25m ./... > "$OUT" 2>&1
python3 - "$OUT" <<'PY'
import json,sys
p=f=0; fails=[]
for l in open(sys.argv[1]):
    try: e=json.loads(l)
    except Exception: continue
    if e.get('Test') and e.get('Action')=='pass': p+=1
    if e.get('Test') and e.get('Action')=='fail': f+=1; fails.append(e['Package']+'::'+e['Test'])
print('repo suite: pass=%d fail=%d'%(p,f)); print('\n'.join(fails))
PY
