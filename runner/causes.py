#!/usr/bin/env python3
"""causes.py <build-dir-glob>: violation causes of kept run directories."""
import json,glob,collections,sys
cnt=collections.Counter(); ex={}
verd=collections.Counter()
for f in glob.glob(sys.argv[1]+'/out/*/s*/results.jsonl'):
    for l in open(f):
        r=json.loads(l)
        verd[r['verdict']]+=1
        if r['verdict']=='inconclusive': cnt['INCONCLUSIVE: '+r.get('inconclusive','')[:80]]+=1
        for v in r.get('violations',[]):
            k=json.dumps(v['cause'],sort_keys=True)
            cnt[k]+=1
            ex.setdefault(k,(r['i'],v['detail']))
print(dict(verd))
n=int(sys.argv[2]) if len(sys.argv)>2 else 1500
maxc=int(sys.argv[3]) if len(sys.argv)>3 else 12
for k,c in cnt.most_common(maxc):
    print(c,k)
    if k in ex: print('    case',ex[k][0],ex[k][1][:n].replace('\n','\n    ')); print()
