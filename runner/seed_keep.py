#!/usr/bin/env python3
"""seed_keep.py <seed-dir> "<seed_verify summary line>"
Stores a confirmed seeded change under /verif/seeded/<PROP>-<x>-<name>/ (patch.diff, demo_test.go, meta.json).
Only called after seed_verify.sh confirmed: applies, builds, demo passes without / fails with, suite passes."""
import json, os, shutil, sys, re
d, line = sys.argv[1].rstrip("/"), sys.argv[2]
kv = dict(re.findall(r"(\w+)=(\S+)", line))
ok = (kv.get("applies") == "yes" and kv.get("builds") == "yes" and kv.get("demo_without") == "pass"
      and kv.get("demo_with") == "fail" and kv.get("suite", "").startswith("pass=") and ",fail=0" in kv.get("suite", ""))
meta = json.load(open(os.path.join(d, "meta.json")))
if not ok:
    print("NOT KEPT", d, line); sys.exit(1)
prop = meta["property"]; x = os.path.basename(d)
name = re.sub(r"[^a-z0-9-]", "-", meta.get("name", "change").lower())[:48]
dst = "/verif/seeded/%s-%s-%s" % (prop, x, name)
os.makedirs(dst, exist_ok=True)
shutil.copy(os.path.join(d, "patch.diff"), dst + "/patch.diff")
shutil.copy(os.path.join(d, "demo_test.go"), dst + "/demo_test.go")
meta["confirmed_by_seed_verify"] = kv
meta["origin"] = "sub-agent given only the property record and a scratch worktree"
json.dump(meta, open(dst + "/meta.json", "w"), indent=1)
print("kept", dst)
