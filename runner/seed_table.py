#!/usr/bin/env python3
"""Rewrites the table of DESIGN.md section 0.8 from seeded/*/meta.json, seeded/RESULTS.tsv and seeded/NOTES.json."""
import json, glob, os, re
V = "/verif"
notes = json.load(open(V + "/seeded/NOTES.json")) if os.path.exists(V + "/seeded/NOTES.json") else {}
res = {}
if os.path.exists(V + "/seeded/RESULTS.tsv"):
    for l in open(V + "/seeded/RESULTS.tsv").read().split("\n")[1:]:
        f = l.split("\t")
        if len(f) >= 5:
            res[f[0]] = f
rows = ["| seeded change | what it does / what it needs | quick check (seed 1) | first cause reported | check strengthened? |", "|---|---|---|---|---|"]
for d in sorted(glob.glob(V + "/seeded/C*/")):
    name = os.path.basename(d.rstrip("/"))
    m = json.load(open(d + "meta.json"))
    r = res.get(name)
    if r:
        verdict = ("caught, %s violating cases" % r[3]) if r[2] == "1" else ("MISSED (exit %s)" % r[2])
        cause = r[4]
        try:
            cj = json.loads(cause); cj.pop("monitor", None)
            cause = ", ".join("%s=%s" % kv for kv in cj.items())
        except Exception:
            pass
    else:
        verdict, cause = "not run yet", ""
    what = (m.get("summary", "") + " — needs: " + m.get("needs", "")).replace("|", "/").replace("\n", " ")
    if len(what) > 330:
        what = what[:327] + "..."
    rows.append("| `%s` | %s | %s | %s | %s |" % (name, what, verdict, cause.replace("|", "/")[:140], notes.get(name, "no")))
extra = notes.get("_not_kept", [])
tbl = "\n".join(rows)
if extra:
    tbl += "\n\nNot kept: " + " ".join(extra)
p = V + "/DESIGN.md"
s = open(p).read()
b, e = "<!-- SEEDED-TABLE-BEGIN -->", "<!-- SEEDED-TABLE-END -->"
if "SEEDED_TABLE_PLACEHOLDER" in s:
    s = s.replace("SEEDED_TABLE_PLACEHOLDER", b + "\n" + tbl + "\n" + e)
else:
    s = re.sub(re.escape(b) + r".*?" + re.escape(e), lambda _: b + "\n" + tbl + "\n" + e, s, flags=re.S)
open(p, "w").write(s)
print("rows", len(rows) - 2)
