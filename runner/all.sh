#!/bin/bash
# runs every claimed check (quick or $1) sequentially; prints one line per check
TIER=${1:-quick}; shift
cd /verif
for id in $(python3 -c "import json;print(' '.join(c['property_id'] for c in json.load(open('MANIFEST.json'))['checks']))"); do
  s=$(date +%s)
  out=$(./bin/check $id $TIER "$@" 2>&1); rc=$?
  echo "$id rc=$rc $(( $(date +%s)-s ))s $(echo "$out" | grep -c '^VIOLATION') violations $(echo "$out" | grep -c '^INCONCLUSIVE') inconclusive"
  [ $rc -ne 0 ] && echo "$out" | grep "^VIOLATION\|^INCONCLUSIVE\|cause=" | head -5
done
