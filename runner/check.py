#!/usr/bin/env python3
"""Runner for the runtime monitors (DESIGN.md 2.1, 2.5, 7).

bin/check <ID> <quick|thorough> [--seed N] [--mutant patch.diff] [--keep]
bin/check <ID> --replay <file>
bin/check --setup

Exit codes: 0 = held on everything explored (known findings are listed),
1 = a violation that KNOWN_FINDINGS.json does not list, 2 = build broken /
run inconclusive (watchdog, too few conclusive cases, harness error).
"""
import concurrent.futures as cf
import glob
import json
import os
import re
import shutil
import subprocess
import sys
import time

VERIF = os.path.dirname(os.path.dirname(os.path.abspath(__file__)))
REPO = os.environ.get("VERIF_REPO", "/repo")
sys.path.insert(0, os.path.join(VERIF, "runner"))
from props import PROPS  # noqa: E402

TOOLCHAIN = "/root/go/pkg/mod/golang.org/toolchain@v0.0.1-go1.25.0.linux-amd64/bin/go"
PKGS = {
    "pubsub": {"dir": ".", "harness": "harness/pubsub"},
    "timecache": {"dir": "./timecache", "harness": "harness/timecache"},
}


def go_env():
    env = dict(os.environ)
    env.update({"GOFLAGS": "-mod=mod", "GOPROXY": "off", "GOSUMDB": "off"})
    if os.path.exists(TOOLCHAIN):
        env["GOTOOLCHAIN"] = "local"
        return TOOLCHAIN, env
    # fallback: let the default go switch to the cached toolchain
    env.pop("GOSUMDB", None)
    env["GOTOOLCHAIN"] = "auto"
    return "go", env


def log(*a):
    print(*a, flush=True)


def prepare_build(workdir, mutant):
    os.makedirs(workdir, exist_ok=True)
    shutil.copy(os.path.join(REPO, "go.mod"), os.path.join(workdir, "go.mod"))
    shutil.copy(os.path.join(REPO, "go.sum"), os.path.join(workdir, "go.sum"))
    # extra requirement: porcupine (exact cached version)
    with open(os.path.join(workdir, "go.mod"), "a") as f:
        f.write("\nrequire github.com/anishathalye/porcupine v1.3.0\n")
    with open(os.path.join(workdir, "go.sum"), "a") as f:
        extra = os.path.join(VERIF, "runner", "extra.go.sum")
        if os.path.exists(extra):
            f.write(open(extra).read())
    rep = {}
    for pkg, info in PKGS.items():
        hd = os.path.join(VERIF, info["harness"])
        for fn in sorted(glob.glob(os.path.join(hd, "*.go"))):
            dst = os.path.normpath(os.path.join(REPO, info["dir"], "zz_verif_" + os.path.basename(fn)))
            rep[dst] = fn
    # packages other than pubsub get a copy of the shared case runner
    core = open(os.path.join(VERIF, "harness", "pubsub", "core_test.go")).read()
    for pkg, info in PKGS.items():
        if pkg == "pubsub":
            continue
        gen = os.path.join(workdir, "gen", "%s_core_test.go" % pkg)
        os.makedirs(os.path.dirname(gen), exist_ok=True)
        open(gen, "w").write(core.replace("package pubsub", "package " + pkg, 1))
        rep[os.path.normpath(os.path.join(REPO, info["dir"], "zz_verif_core_test.go"))] = gen
    if mutant:
        mdir = os.path.join(workdir, "mut")
        files = re.findall(r"^\+\+\+ b/(\S+)", open(mutant).read(), re.M)
        for rel in files:
            dst = os.path.join(mdir, rel)
            os.makedirs(os.path.dirname(dst), exist_ok=True)
            if os.path.exists(os.path.join(REPO, rel)):
                shutil.copy(os.path.join(REPO, rel), dst)
        r = subprocess.run(["patch", "-p1", "-s", "-d", mdir, "-i", os.path.abspath(mutant)],
                           capture_output=True, text=True)
        if r.returncode != 0:
            log("BROKEN-BUILD: mutant patch does not apply:", r.stdout, r.stderr)
            sys.exit(2)
        for rel in files:
            rep[os.path.join(REPO, rel)] = os.path.join(mdir, rel)
    ov = os.path.join(workdir, "overlay.json")
    json.dump({"Replace": rep}, open(ov, "w"))
    return ov


def build(workdir, pkg, race, ov):
    go, env = go_env()
    out = os.path.join(workdir, "%s%s.test" % (pkg, ".race" if race else ""))
    cmd = [go, "test", "-c", "-tags", "verif", "-overlay", ov,
           "-modfile", os.path.join(workdir, "go.mod"), "-vet=off", "-o", out]
    if race:
        cmd.append("-race")
    cmd.append(PKGS[pkg]["dir"])
    t0 = time.time()
    r = subprocess.run(cmd, cwd=REPO, env=env, capture_output=True, text=True)
    if r.returncode != 0 or not os.path.exists(out):
        log("BROKEN-BUILD (%s race=%s):\n%s\n%s" % (pkg, race, r.stdout[-4000:], r.stderr[-8000:]))
        sys.exit(2)
    log("built %s in %.1fs" % (os.path.basename(out), time.time() - t0))
    return out


def _frames(block):
    """[(function, file)] of one goroutine block of a Go crash dump."""
    lines = block.strip().split("\n")
    out = []
    i = 1
    while i < len(lines) - 1:
        fn = lines[i].strip()
        fl = lines[i + 1].strip()
        if fl.startswith("/") or fl.startswith("_testmain") or re.match(r"^\S+\.go:\d+", fl):
            if fn.startswith("created by "):
                fn = fn[len("created by "):].split(" in goroutine")[0]
            else:
                j = fn.rfind("(")
                if j > 0:
                    fn = fn[:j]
            out.append((fn, fl))
            i += 2
        else:
            i += 1
    return lines[0] if lines else "", out


def _is_lib(fn, fl):
    return fn.startswith("github.com/libp2p/go-libp2p-pubsub") and "_test.go" not in fl and "zz_verif" not in fl


def _is_harness(fn, fl):
    return "zz_verif" in fl or "/verif/harness" in fl


def classify_crash(text):
    """cause record of a crashed child from its output."""
    m = re.search(r"^(panic: .*|fatal error: .*)$", text, re.M)
    if not m and "race detected during execution of test" in text:
        # the testing package ends the test function when a bubble saw a race; the report itself is in race.<pid>
        return {"kind": "race_abort", "where": "testing"}, "test function ended by the race detector (see race reports)"
    head = m.group(1) if m else "unknown crash"
    kind = "panic"
    if "blocked goroutines remain" in head or "deadlock: main bubble goroutine" in head:
        kind = "goroutine_leak"
    elif head.startswith("fatal error: VERIF-STALL"):
        kind = "lock_stall"
    elif head.startswith("fatal error"):
        kind = "fatal"
    where = "unknown"
    blocks = [b for b in text[m.end():].split("\n\n") if b.strip().startswith("goroutine ")] if m else []
    if kind == "goroutine_leak":
        wheres = []
        for b in blocks:
            hdr, fr = _frames(b)
            if "synctest bubble" not in hdr or "(durable)" not in hdr:
                continue
            lib = [fn for fn, fl in fr if _is_lib(fn, fl)]
            if lib:
                wheres.append(lib[0])
        if wheres:
            where = sorted(set(wheres))[0]
        else:
            kind = "harness"  # only harness / dependency goroutines were left behind
    elif blocks:
        hdr, fr = _frames(blocks[0])
        user = [(fn, fl) for fn, fl in fr if not (fn.startswith("runtime.") or fn.startswith("internal/") or fn.startswith("panic") or fn.startswith("sync.") or fn.startswith("testing."))]
        if user and _is_harness(*user[0]):
            kind = "harness"
            where = user[0][0]
        else:
            lib = [fn for fn, fl in fr if _is_lib(fn, fl)]
            if lib:
                where = lib[0]
            elif user:
                where = user[0][0]
    return {"kind": kind, "where": where}, head


def run_shard(binary, test, outdir, env_extra, shard, nshard, timeout_s, gomaxprocs, race):
    """Runs one shard to completion, restarting behind crashing cases."""
    os.makedirs(outdir, exist_ok=True)
    crashes = []
    start = 0
    attempt = 0
    status = "ok"
    while True:
        attempt += 1
        env = dict(os.environ)
        env.update(env_extra)
        env.update({"VERIF_SHARD": "%d/%d" % (shard, nshard), "VERIF_OUT": outdir,
                    "VERIF_START": str(start), "GODEBUG": "randseednop=0"})
        if gomaxprocs:
            env["GOMAXPROCS"] = str(gomaxprocs)
        if race:
            env["GORACE"] = "halt_on_error=0 log_path=%s/race" % outdir
        outf = os.path.join(outdir, "out.%d.txt" % attempt)
        cmd = ["timeout", "-s", "QUIT", "-k", "20", str(timeout_s), binary,
               "-test.run", "^%s$" % test, "-test.timeout", "0", "-test.count", "1"]
        with open(outf, "w") as f:
            r = subprocess.run(cmd, cwd=outdir, env=env, stdout=f, stderr=subprocess.STDOUT)
        cl = os.path.join(outdir, "cases.log")
        lines = open(cl).read().split("\n") if os.path.exists(cl) else []
        last_begin = max([i for i, l in enumerate(lines) if l.startswith("BEGIN ")] or [-1])
        seg = lines[last_begin + 1:] if last_begin >= 0 else []
        done = any(l.startswith("DONE ") for l in seg)
        if done:
            break
        text = open(outf, errors="replace").read()
        cases = [int(l.split()[1]) for l in seg if l.startswith("CASE ")]
        if r.returncode in (124, 137) or "SIGQUIT" in text[:20000] and r.returncode != 2:
            status = "timeout"
            crashes.append({"case": cases[-1] if cases else None, "cause": {"kind": "watchdog"},
                            "head": "watchdog fired (inconclusive)", "out": outf})
            break
        if last_begin < 0 or not cases:
            status = "broken"
            crashes.append({"case": None, "cause": {"kind": "harness"}, "head": "child produced no case", "out": outf})
            break
        cause, head = classify_crash(text)
        bc = os.path.join(outdir, "breadcrumbs.log")
        if os.path.exists(bc):
            last = [l for l in open(bc, errors="replace").read().split("\n") if l.startswith("case %d:" % cases[-1])][-3:]
            if last:
                head += "\n  last inputs before the crash: " + " || ".join(last)[:3000]
        crashes.append({"case": cases[-1], "cause": cause, "head": head, "out": outf})
        start = cases[-1] + 1
        if attempt >= 25:
            status = "too_many_crashes"
            break
    results = []
    rf = os.path.join(outdir, "results.jsonl")
    if os.path.exists(rf):
        for l in open(rf):
            l = l.strip()
            if l:
                try:
                    results.append(json.loads(l))
                except Exception:
                    pass
    races = []
    if race:
        for f in glob.glob(os.path.join(outdir, "race.*")):
            races += parse_races(open(f, errors="replace").read())
    return {"shard": shard, "status": status, "results": results, "crashes": crashes, "races": races}


def parse_races(text):
    out = []
    for blk in text.split("=================="):
        if "WARNING: DATA RACE" not in blk:
            continue
        stacks = re.split(r"\n\n", blk.strip())
        frames = []
        for st in stacks[:2]:
            fr = []
            lines = st.split("\n")
            for i, l in enumerate(lines):
                l = l.strip()
                if l.startswith("github.com/") or l.startswith("runtime.") or re.match(r"^[\w./\-]+\.[\w.()*\[\]]+\(", l):
                    fn = l[:l.rfind("(")] if "(" in l else l
                    fl = lines[i + 1].strip() if i + 1 < len(lines) else ""
                    fr.append((fn, fl))
            frames.append(fr)
        out.append({"frames": frames, "text": blk.strip()[:6000]})
    return out


def race_cause(r):
    """library-attributable race -> cause record, else None."""
    tops = []
    for fr in r["frames"]:
        lib = [fn for fn, fl in fr if fn.startswith("github.com/libp2p/go-libp2p-pubsub")
               and "_test.go" not in fl and "zz_verif" not in fl]
        if not lib:
            return None
        tops.append(lib[0])
    if len(tops) < 2:
        return None
    return {"kind": "race", "pair": " | ".join(sorted(re.sub(r"\.func\d+(\.\d+)*", "", t) for t in tops))}


def match_known(known, prop, cause):
    for k in known:
        if k.get("property") != prop or k.get("status") != "open":
            continue
        m = k.get("match", {})
        if all(cause.get(a) == b for a, b in m.items()):
            return k
    return None


def main():
    args = sys.argv[1:]
    if not args:
        log(__doc__)
        sys.exit(2)
    if args[0] == "--setup":
        return setup()
    prop = args[0]
    if prop not in PROPS:
        log("unknown property", prop)
        sys.exit(2)
    tier = os.environ.get("VERIF_TIER", "quick")
    seed = int(os.environ.get("VERIF_SEED", "1") or 1)
    replay = mutant = None
    keep = False
    only_mon = None
    i = 1
    while i < len(args):
        a = args[i]
        if a in ("quick", "thorough"):
            tier = a
        elif a == "--seed":
            seed = int(args[i + 1]); i += 1
        elif a == "--replay":
            replay = args[i + 1]; i += 1
        elif a == "--mutant":
            mutant = args[i + 1]; i += 1
        elif a == "--monitor":
            only_mon = args[i + 1]; i += 1
        elif a == "--keep":
            keep = True
        i += 1
    cfg = PROPS[prop]
    t0 = time.time()
    workdir = os.path.join(VERIF, "build", "%s-%d" % (prop, os.getpid()))
    try:
        ov = prepare_build(workdir, mutant)
        if replay:
            rc = do_replay(prop, cfg, replay, workdir, ov)
        else:
            rc = do_check(prop, cfg, tier, seed, workdir, ov, t0, mutant, only_mon)
    finally:
        if not keep:
            shutil.rmtree(workdir, ignore_errors=True)
    sys.exit(rc)


def setup():
    """warm the Go build cache for all binaries; nothing is fetched."""
    workdir = os.path.join(VERIF, "build", "setup-%d" % os.getpid())
    try:
        ov = prepare_build(workdir, None)
        need = set()
        for cfg in PROPS.values():
            for m in cfg["monitors"]:
                need.add((m.get("pkg", "pubsub"), bool(m.get("race"))))
        for pkg, race in sorted(need):
            build(workdir, pkg, race, ov)
    finally:
        shutil.rmtree(workdir, ignore_errors=True)
    log("setup ok")
    return 0


def do_check(prop, cfg, tier, seed, workdir, ov, t0, mutant, only_mon):
    known = json.load(open(os.path.join(VERIF, "KNOWN_FINDINGS.json"))).get("findings", [])
    bins = {}
    monitors = [m for m in cfg["monitors"] if (tier in m.get("tiers", ("quick", "thorough")))]
    if only_mon:
        monitors = [m for m in monitors if m["name"] == only_mon]
    for m in monitors:
        key = (m.get("pkg", "pubsub"), bool(m.get("race")))
        if key not in bins:
            bins[key] = build(workdir, key[0], key[1], ov)
    ncpu = os.cpu_count() or 4
    agg = {"evaluations": 0, "held": 0, "violated": 0, "inconclusive": 0, "harness_error": 0,
           "sigs": set(), "states": set(), "orders": set(), "counts": {}, "samples": [],
           "race_reports": 0, "race_notes": 0, "crashes": 0, "monitors": {}}
    violations = []   # (monitor, case, cause, detail, result)
    broken = []
    for m in monitors:
        key = (m.get("pkg", "pubsub"), bool(m.get("race")))
        nshard = min(m.get("shards", 16), ncpu)
        timeout_s = m.get("timeout_s", {"quick": 300, "thorough": 3600})[tier] if isinstance(m.get("timeout_s"), dict) else m.get("timeout_s", 300 if tier == "quick" else 3600)
        gmp = m.get("gomaxprocs", 1 if m.get("race") and m.get("bubble", True) else 2)
        env_extra = {"VERIF_SEED": str(seed), "VERIF_TIER": tier}
        env_extra.update(m.get("env", {}))
        tm = time.time()
        futs = []
        with cf.ThreadPoolExecutor(max_workers=nshard) as ex:
            for s in range(nshard):
                od = os.path.join(workdir, "out", m["name"], "s%d" % s)
                futs.append(ex.submit(run_shard, bins[key], m["test"], od, env_extra, s, nshard,
                                      timeout_s, gmp, bool(m.get("race"))))
            shards = [f.result() for f in futs]
        ms = {"evaluations": 0, "held": 0, "violated": 0, "inconclusive": 0, "harness_error": 0, "crashes": 0,
              "wall_s": round(time.time() - tm, 1), "race": bool(m.get("race"))}
        seen_races = set()
        for sh in shards:
            if sh["status"] != "ok":
                broken.append("%s shard %d: %s (%s)" % (m["name"], sh["shard"], sh["status"],
                                                         sh["crashes"][-1]["out"] if sh["crashes"] else ""))
            for cr in sh["crashes"]:
                if cr["cause"].get("kind") == "harness":
                    broken.append("%s case %s: harness crash: %s (%s)" % (m["name"], cr["case"], cr["head"], cr["out"]))
                if cr["cause"].get("kind") in ("watchdog", "harness", "race_abort"):
                    continue
                ms["crashes"] += 1
                ms["evaluations"] += 1
                ms["violated"] += 1
                cause = dict(cr["cause"]); cause["monitor"] = m["name"]
                violations.append((m, cr["case"], cause, cr["head"], {"crash_output": tail(cr["out"], 300)}))
            for r in sh["results"]:
                ms["evaluations"] += 1
                v = r.get("verdict", "harness_error")
                ms[v] = ms.get(v, 0) + 1
                if v in ("held", "violated") and r.get("nontrivial") and r.get("sig"):
                    agg["sigs"].add(m["name"] + ":" + r["sig"])
                for s in r.get("states") or []:
                    agg["states"].add(s)
                for s in r.get("orders") or []:
                    agg["orders"].add(s)
                for k, n in (r.get("counts") or {}).items():
                    agg["counts"][k] = agg["counts"].get(k, 0) + n
                if r.get("sample") is not None and len([s for s in agg["samples"] if s["monitor"] == m["name"]]) < 2:
                    agg["samples"].append({"monitor": m["name"], "case": r["i"], "verdict": v, "case_data": r["sample"]})
                if v == "violated":
                    for viol in r.get("violations", []):
                        cause = dict(viol.get("cause") or {}); cause["monitor"] = m["name"]
                        violations.append((m, r["i"], cause, viol.get("detail", ""), r))
                if v == "harness_error":
                    broken.append("%s case %d: harness error: %s" % (m["name"], r["i"], (r.get("inconclusive") or "")[:2000]))
            for rc_ in sh["races"]:
                c = race_cause(rc_)
                if c is None:
                    agg["race_notes"] += 1
                    continue
                if c["pair"] in seen_races:
                    continue
                seen_races.add(c["pair"])
                agg["race_reports"] += 1
                c["monitor"] = m["name"]
                violations.append((m, None, c, "DATA RACE " + c["pair"], {"race": rc_["text"]}))
        for k in ("evaluations", "held", "violated", "inconclusive", "harness_error", "crashes"):
            agg[k] += ms.get(k, 0)
        agg["monitors"][m["name"]] = ms
        conclusive = ms["held"] + ms["violated"]
        minc = m.get("min_conclusive", 0.5)
        if ms["evaluations"] == 0 or conclusive < minc * ms["evaluations"]:
            broken.append("%s: too few conclusive cases (%d of %d)" % (m["name"], conclusive, ms["evaluations"]))
        for k, need in (m.get("min_counts") or {}).items():
            if agg["counts"].get(k, 0) < need:
                broken.append("%s: observed %s=%d < %d (hook/path never reached)" % (m["name"], k, agg["counts"].get(k, 0), need))
        log("monitor %-22s cases=%d held=%d violated=%d inconclusive=%d harness_error=%d crashes=%d %.1fs" % (
            m["name"], ms["evaluations"], ms["held"], ms["violated"], ms["inconclusive"], ms["harness_error"], ms["crashes"], ms["wall_s"]))

    # ---- classify violations against the known-findings file
    new_viol, known_obs = [], {}
    for (m, case, cause, detail, r) in violations:
        k = match_known(known, prop, cause)
        if k:
            known_obs[k["id"]] = known_obs.get(k["id"], 0) + 1
        else:
            new_viol.append((m, case, cause, detail, r))
    for k in known:
        if k.get("property") == prop and k.get("status") == "open":
            log("KNOWN-FINDING: property=%s %s [%s; observed %d time(s) in this run]" % (
                prop, k["what"], k["id"], known_obs.get(k["id"], 0)))
    rc = 0
    replays = []
    os.makedirs(os.path.join(VERIF, "replays"), exist_ok=True)
    seenc = set()
    for (m, case, cause, detail, r) in new_viol:
        ck = json.dumps(cause, sort_keys=True)
        if ck in seenc and len(replays) >= 1:
            continue
        seenc.add(ck)
        if len(replays) >= 8:
            break
        path = os.path.join(VERIF, "replays", "%s-%s-s%d-c%s.json" % (prop, m["name"], seed, case))
        json.dump({"property": prop, "monitor": m["name"], "test": m["test"], "pkg": m.get("pkg", "pubsub"),
                   "race": bool(m.get("race")), "seed": seed, "tier": tier, "case": case, "env": m.get("env", {}),
                   "cause": cause, "detail": detail, "result": r}, open(path, "w"), indent=1)
        replays.append(path)
        log("VIOLATION property=%s replay=%s" % (prop, path))
        log("  cause=%s\n  %s" % (json.dumps(cause, sort_keys=True), detail[:1500].replace("\n", "\n  ")))
        rc = 1
    if broken and rc == 0:
        rc = 2
    for b in broken:
        log("INCONCLUSIVE: " + b)

    ev = {
        "property_id": prop, "tier": tier, "seed": seed, "level": cfg["level"],
        "coverage": {
            "evaluations": agg["evaluations"],
            "distinct_nontrivial": len(agg["sigs"]),
            "rule": cfg["rule"],
            "samples": agg["samples"][:6],
            "verdicts": {k: agg[k] for k in ("held", "violated", "inconclusive", "harness_error")},
            "events": dict(sorted(agg["counts"].items())),
            "distinct_states": len(agg["states"]),
            "distinct_interleavings": len(agg["orders"]),
            "race_reports": agg["race_reports"], "race_notes_outside_library": agg["race_notes"],
            "child_crashes": agg["crashes"],
            "monitors": agg["monitors"],
            "known_findings_observed": known_obs,
            "exhaustive": bool(cfg.get("exhaustive")),
        },
        "assumptions": cfg.get("assumptions", []),
        "wall_s": round(time.time() - t0, 1),
        "violations": len(new_viol),
    }
    if mutant:
        ev["coverage"]["mutant"] = os.path.basename(mutant)
    evp = os.path.join(VERIF, "evidence", prop + ".json")
    if not mutant and not only_mon:
        os.makedirs(os.path.dirname(evp), exist_ok=True)
        json.dump(ev, open(evp, "w"), indent=1, sort_keys=True)
    log("%s %s seed=%d: evaluations=%d distinct_nontrivial=%d violations=%d known=%s wall=%.1fs -> exit %d" % (
        prop, tier, seed, agg["evaluations"], len(agg["sigs"]), len(new_viol), known_obs, time.time() - t0, rc))
    return rc


def tail(path, n):
    try:
        return open(path, errors="replace").read().split("\n")[:n]
    except Exception:
        return []


def do_replay(prop, cfg, path, workdir, ov):
    rp = json.load(open(path))
    b = build(workdir, rp.get("pkg", "pubsub"), rp.get("race", False), ov)
    if rp.get("case") is None:
        log("replay file has no single case (race / crash without case): rerun the monitor")
        return 2
    repro = 0
    n = int(os.environ.get("VERIF_REPLAY_N", "20"))
    first = None
    for k in range(n):
        od = os.path.join(workdir, "replay", str(k))
        os.makedirs(od, exist_ok=True)
        env = dict(os.environ)
        env.update(rp.get("env", {}))
        env.update({"VERIF_SEED": str(rp["seed"]), "VERIF_TIER": rp["tier"], "VERIF_ONLY": str(rp["case"]),
                    "VERIF_OUT": od, "GODEBUG": "randseednop=0"})
        if rp.get("race"):
            env["GOMAXPROCS"] = "1"
        with open(os.path.join(od, "out.txt"), "w") as f:
            subprocess.run(["timeout", "-s", "QUIT", "600", b, "-test.run", "^%s$" % rp["test"], "-test.timeout", "0"],
                           cwd=od, env=env, stdout=f, stderr=subprocess.STDOUT)
        res = None
        rf = os.path.join(od, "results.jsonl")
        if os.path.exists(rf):
            ls = [l for l in open(rf) if l.strip()]
            if ls:
                res = json.loads(ls[-1])
        crashed = res is None
        bad = crashed or res.get("verdict") == "violated"
        if bad:
            repro += 1
            if first is None:
                first = res if res else {"crash": tail(os.path.join(od, "out.txt"), 200)}
    log("replay %s case %s: reproduced %d/%d" % (rp["monitor"], rp["case"], repro, n))
    if first is not None:
        log(json.dumps(first, indent=1)[:20000])
        log("VIOLATION property=%s replay=%s" % (prop, path))
        return 1
    return 0


if __name__ == "__main__":
    main()
